// ===== shim/ledger_spec.rs : the cw20 ledger vocabulary shared by the tokens unit (clauses) and the reward unit (C16 mirror lemmas) =====
pub open spec fn bal(m: Map<Seq<u8>, Uint128>, a: Seq<u8>) -> nat { if m.contains_key(a) { m[a].0 as nat } else { 0 } }
/// moving `amount` from one account to another (same account: no net change), every other account untouched
pub open spec fn moved(m: Map<Seq<u8>, Uint128>, from: Seq<u8>, to: Seq<u8>, amount: nat) -> Map<Seq<u8>, Uint128> {
    let m1 = m.insert(from, Uint128((bal(m, from) - amount) as u128));
    m1.insert(to, Uint128((bal(m1, to) + amount) as u128))
}
