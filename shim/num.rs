// ===== shim/num.rs : assumed contracts of cosmwasm-std 1.5 numbers and packages/bignumber =====
// Every `external_body` below is an assumption (A3); bodies that are not external are verified.

pub open spec fn E18() -> nat { 1_000_000_000_000_000_000 }
pub open spec fn U128MAX() -> nat { 0xffff_ffff_ffff_ffff_ffff_ffff_ffff_ffff }
pub open spec fn P128() -> nat { (u128::MAX as nat) + 1 }
pub open spec fn U256MAX() -> nat { (P128() * P128() - 1) as nat }

/// floor(a * d / 1e18): Uint * Decimal
#[verifier::opaque]
pub open spec fn mul_floor(a: nat, d: nat) -> nat { (a * d) / E18() }
/// floor(a * 1e18 / b): Decimal::from_ratio atomics (b != 0)
#[verifier::opaque]
pub open spec fn ratio_floor(a: nat, b: nat) -> nat { if b == 0 { 0 } else { (a * E18()) / b } }
/// floor(a * n / d): multiply_ratio
#[verifier::opaque]
pub open spec fn mulratio(a: nat, n: nat, d: nat) -> nat { if d == 0 { 0 } else { (a * n) / d } }

#[derive(Debug)]
pub struct StdError { pub kind: u8 }
impl StdError {
    #[verifier::external_body]
    pub fn generic_err<S>(m: S) -> (r: StdError) { StdError { kind: 0 } }
    #[verifier::external_body]
    pub fn overflow_sub(a: u128, b: u128) -> (r: StdError) { StdError { kind: 1 } }
}
pub type StdResult<T> = Result<T, StdError>;

// ---------------------------------------------------------------- Uint128
#[derive(Copy, Clone)]
pub struct Uint128(pub u128);

impl Uint128 {
    pub const MAX: Uint128 = Uint128(u128::MAX);
    pub fn zero() -> (r: Uint128) ensures r.0 == 0 { Uint128(0) }
    pub fn one() -> (r: Uint128) ensures r.0 == 1 { Uint128(1) }
    pub fn new(x: u128) -> (r: Uint128) ensures r.0 == x { Uint128(x) }
    pub fn u128(&self) -> (r: u128) ensures r == self.0 { self.0 }
    pub fn is_zero(&self) -> (r: bool) ensures r == (self.0 == 0) { self.0 == 0 }
    pub fn min(self, b: Uint128) -> (r: Uint128) ensures r.0 == (if self.0 <= b.0 { self.0 } else { b.0 }) { if self.0 <= b.0 { self } else { b } }
    pub fn max(self, b: Uint128) -> (r: Uint128) ensures r.0 == (if self.0 >= b.0 { self.0 } else { b.0 }) { if self.0 >= b.0 { self } else { b } }
    pub fn saturating_sub(self, o: Uint128) -> (r: Uint128) ensures r.0 == (if self.0 >= o.0 { self.0 - o.0 } else { 0 }) { if self.0 >= o.0 { Uint128(self.0 - o.0) } else { Uint128(0) } }
    pub fn saturating_add(self, o: Uint128) -> (r: Uint128) ensures r.0 == (if self.0 + o.0 <= u128::MAX { (self.0 + o.0) as u128 } else { u128::MAX }) { if self.0 <= u128::MAX - o.0 { Uint128(self.0 + o.0) } else { Uint128(u128::MAX) } }
    pub fn checked_sub(self, o: Uint128) -> (r: StdResult<Uint128>)
        ensures self.0 >= o.0 ==> r is Ok && r->Ok_0.0 == self.0 - o.0,
                self.0 < o.0 ==> r is Err
    { if self.0 >= o.0 { Ok(Uint128(self.0 - o.0)) } else { Err(StdError::overflow_sub(self.0, o.0)) } }
    pub fn checked_add(self, o: Uint128) -> (r: StdResult<Uint128>)
        ensures self.0 + o.0 <= u128::MAX ==> r is Ok && r->Ok_0.0 == self.0 + o.0,
                self.0 + o.0 > u128::MAX ==> r is Err
    { if self.0 <= u128::MAX - o.0 { Ok(Uint128(self.0 + o.0)) } else { Err(StdError::overflow_sub(self.0, o.0)) } }
    #[verifier::external_body]
    pub fn multiply_ratio(&self, n: Uint128, d: Uint128) -> (r: Uint128)
        requires d.0 != 0, mulratio(self.0 as nat, n.0 as nat, d.0 as nat) <= u128::MAX
        ensures r.0 == mulratio(self.0 as nat, n.0 as nat, d.0 as nat)
    { unimplemented!() }
    pub fn sub(self, o: Uint128) -> (r: Uint128)
        requires self.0 >= o.0
        ensures r.0 == self.0 - o.0
    { Uint128(self.0 - o.0) }
    #[verifier::external_body]
    pub fn to_string(&self) -> (r: String) { unimplemented!() }
    /// `std::ops::Mul::mul` in method syntax: Uint128 * Decimal
    #[verifier::external_body]
    pub fn mul(self, rhs: Decimal) -> (r: Uint128)
        requires mul_floor(self.0 as nat, rhs.0 as nat) <= u128::MAX
        ensures r.0 == mul_floor(self.0 as nat, rhs.0 as nat)
    { unimplemented!() }
    pub fn gt(&self, o: &Uint128) -> (r: bool) ensures r == (self.0 > o.0) { self.0 > o.0 }
}
impl Default for Uint128 { fn default() -> (r: Uint128) ensures r.0 == 0 { Uint128(0) } }

impl core::cmp::PartialEq for Uint128 {
    fn eq(&self, o: &Uint128) -> (r: bool) ensures r == (self.0 == o.0) { self.0 == o.0 }
}
impl PartialEqSpecImpl for Uint128 {
    open spec fn obeys_eq_spec() -> bool { true }
    open spec fn eq_spec(&self, o: &Uint128) -> bool { self.0 == o.0 }
}
impl PartialOrdSpecImpl for Uint128 {
    open spec fn obeys_partial_cmp_spec() -> bool { true }
    open spec fn partial_cmp_spec(&self, o: &Uint128) -> Option<Ordering> {
        if self.0 < o.0 { Some(Ordering::Less) } else if self.0 == o.0 { Some(Ordering::Equal) } else { Some(Ordering::Greater) }
    }
}
impl core::cmp::PartialOrd for Uint128 {
    fn partial_cmp(&self, o: &Uint128) -> (r: Option<Ordering>) {
        if self.0 < o.0 { Some(Ordering::Less) } else if self.0 == o.0 { Some(Ordering::Equal) } else { Some(Ordering::Greater) }
    }
    fn lt(&self, o: &Uint128) -> (r: bool) ensures r == (self.0 < o.0) { self.0 < o.0 }
    fn le(&self, o: &Uint128) -> (r: bool) ensures r == (self.0 <= o.0) { self.0 <= o.0 }
    fn gt(&self, o: &Uint128) -> (r: bool) ensures r == (self.0 > o.0) { self.0 > o.0 }
    fn ge(&self, o: &Uint128) -> (r: bool) ensures r == (self.0 >= o.0) { self.0 >= o.0 }
}
impl core::ops::Add for Uint128 {
    type Output = Uint128;
    fn add(self, rhs: Uint128) -> (r: Uint128) { Uint128(self.0 + rhs.0) }
}
impl AddSpecImpl<Uint128> for Uint128 {
    open spec fn obeys_add_spec() -> bool { true }
    open spec fn add_req(self, rhs: Uint128) -> bool { self.0 + rhs.0 <= u128::MAX }
    open spec fn add_spec(self, rhs: Uint128) -> Uint128 { Uint128((self.0 + rhs.0) as u128) }
}
impl core::ops::Sub for Uint128 {
    type Output = Uint128;
    fn sub(self, rhs: Uint128) -> (r: Uint128) { Uint128(self.0 - rhs.0) }
}
impl SubSpecImpl<Uint128> for Uint128 {
    open spec fn obeys_sub_spec() -> bool { true }
    open spec fn sub_req(self, rhs: Uint128) -> bool { self.0 >= rhs.0 }
    open spec fn sub_spec(self, rhs: Uint128) -> Uint128 { Uint128((self.0 - rhs.0) as u128) }
}
impl From<u128> for Uint128 { fn from(x: u128) -> (r: Uint128) ensures r.0 == x { Uint128(x) } }
impl FromSpecImpl<u128> for Uint128 {
    open spec fn obeys_from_spec() -> bool { true }
    open spec fn from_spec(x: u128) -> Uint128 { Uint128(x) }
}
impl From<u64> for Uint128 { fn from(x: u64) -> (r: Uint128) ensures r.0 == x { Uint128(x as u128) } }
impl FromSpecImpl<u64> for Uint128 {
    open spec fn obeys_from_spec() -> bool { true }
    open spec fn from_spec(x: u64) -> Uint128 { Uint128(x as u128) }
}

// ---------------------------------------------------------------- Decimal (18 fractional digits, u128 atomics)
#[derive(Copy, Clone)]
pub struct Decimal(pub u128);

impl Decimal {
    pub fn one() -> (r: Decimal) ensures r.0 == E18() { Decimal(1_000_000_000_000_000_000u128) }
    pub fn zero() -> (r: Decimal) ensures r.0 == 0 { Decimal(0) }
    pub fn is_zero(&self) -> (r: bool) ensures r == (self.0 == 0) { self.0 == 0 }
    pub fn min(self, b: Decimal) -> (r: Decimal) ensures r.0 == (if self.0 <= b.0 { self.0 } else { b.0 }) { if self.0 <= b.0 { self } else { b } }
    pub fn gt(&self, o: &Decimal) -> (r: bool) ensures r == (self.0 > o.0) { self.0 > o.0 }
    /// cosmwasm-std: panics when the denominator is zero or the ratio does not fit 128 bits
    #[verifier::external_body]
    pub fn from_ratio<A: DecNum, B: DecNum>(a: A, b: B) -> (r: Decimal)
        requires a.fits128(), b.fits128(), b.numval() != 0, ratio_floor(a.numval(), b.numval()) <= u128::MAX
        ensures r.0 == ratio_floor(a.numval(), b.numval())
    { unimplemented!() }
    /// 1/d = floor(1e36 / atomics); None for zero
    #[verifier::external_body]
    pub fn inv(&self) -> (r: Option<Decimal>)
        ensures self.0 == 0 ==> r is None,
                self.0 != 0 ==> r is Some && r->Some_0.0 == ratio_floor(E18(), self.0 as nat)
    { unimplemented!() }
    #[verifier::external_body]
    pub fn to_string(&self) -> (r: String) { unimplemented!() }
    /// `std::ops::Mul::mul` called in method syntax (`rate.mul(amount)`): Decimal * Uint128
    #[verifier::external_body]
    pub fn mul(self, rhs: Uint128) -> (r: Uint128)
        requires mul_floor(rhs.0 as nat, self.0 as nat) <= u128::MAX
        ensures r.0 == mul_floor(rhs.0 as nat, self.0 as nat)
    { unimplemented!() }
}
impl Default for Decimal { fn default() -> (r: Decimal) ensures r.0 == 0 { Decimal(0) } }

/// Arguments accepted by Decimal::from_ratio (impl Into<Uint128> in cosmwasm-std): Uint128 and,
/// through bignumber's `From<Uint256> for Uint128` (which asserts the value fits 128 bits), Uint256.
pub trait DecNum: Sized {
    spec fn numval(self) -> nat;
    spec fn fits128(self) -> bool;
}
impl DecNum for Uint128 {
    open spec fn numval(self) -> nat { self.0 as nat }
    open spec fn fits128(self) -> bool { true }
}
impl DecNum for Uint256 {
    open spec fn numval(self) -> nat { self.0.val() }
    open spec fn fits128(self) -> bool { self.0.val() <= u128::MAX }
}
impl DecNum for u128 {
    open spec fn numval(self) -> nat { self as nat }
    open spec fn fits128(self) -> bool { true }
}

impl core::cmp::PartialEq for Decimal {
    fn eq(&self, o: &Decimal) -> (r: bool) ensures r == (self.0 == o.0) { self.0 == o.0 }
}
impl PartialEqSpecImpl for Decimal {
    open spec fn obeys_eq_spec() -> bool { true }
    open spec fn eq_spec(&self, o: &Decimal) -> bool { self.0 == o.0 }
}
impl PartialOrdSpecImpl for Decimal {
    open spec fn obeys_partial_cmp_spec() -> bool { true }
    open spec fn partial_cmp_spec(&self, o: &Decimal) -> Option<Ordering> {
        if self.0 < o.0 { Some(Ordering::Less) } else if self.0 == o.0 { Some(Ordering::Equal) } else { Some(Ordering::Greater) }
    }
}
impl core::cmp::PartialOrd for Decimal {
    fn partial_cmp(&self, o: &Decimal) -> (r: Option<Ordering>) {
        if self.0 < o.0 { Some(Ordering::Less) } else if self.0 == o.0 { Some(Ordering::Equal) } else { Some(Ordering::Greater) }
    }
    fn lt(&self, o: &Decimal) -> (r: bool) ensures r == (self.0 < o.0) { self.0 < o.0 }
    fn le(&self, o: &Decimal) -> (r: bool) ensures r == (self.0 <= o.0) { self.0 <= o.0 }
    fn gt(&self, o: &Decimal) -> (r: bool) ensures r == (self.0 > o.0) { self.0 > o.0 }
    fn ge(&self, o: &Decimal) -> (r: bool) ensures r == (self.0 >= o.0) { self.0 >= o.0 }
}
// Uint128 * Decimal and Decimal * Uint128 : floor(a*d/1e18), panics on 128-bit overflow
impl core::ops::Mul<Decimal> for Uint128 {
    type Output = Uint128;
    #[verifier::external_body]
    fn mul(self, rhs: Decimal) -> (r: Uint128) { unimplemented!() }
}
impl MulSpecImpl<Decimal> for Uint128 {
    open spec fn obeys_mul_spec() -> bool { true }
    open spec fn mul_req(self, rhs: Decimal) -> bool { mul_floor(self.0 as nat, rhs.0 as nat) <= u128::MAX }
    open spec fn mul_spec(self, rhs: Decimal) -> Uint128 { Uint128(mul_floor(self.0 as nat, rhs.0 as nat) as u128) }
}
impl core::ops::Mul<Uint128> for Decimal {
    type Output = Uint128;
    #[verifier::external_body]
    fn mul(self, rhs: Uint128) -> (r: Uint128) { unimplemented!() }
}
impl MulSpecImpl<Uint128> for Decimal {
    open spec fn obeys_mul_spec() -> bool { true }
    open spec fn mul_req(self, rhs: Uint128) -> bool { mul_floor(rhs.0 as nat, self.0 as nat) <= u128::MAX }
    open spec fn mul_spec(self, rhs: Uint128) -> Uint128 { Uint128(mul_floor(rhs.0 as nat, self.0 as nat) as u128) }
}
// Decimal * Decimal = floor(a*b/1e18)
impl core::ops::Mul<Decimal> for Decimal {
    type Output = Decimal;
    #[verifier::external_body]
    fn mul(self, rhs: Decimal) -> (r: Decimal) { unimplemented!() }
}
impl MulSpecImpl<Decimal> for Decimal {
    open spec fn obeys_mul_spec() -> bool { true }
    open spec fn mul_req(self, rhs: Decimal) -> bool { mul_floor(self.0 as nat, rhs.0 as nat) <= u128::MAX }
    open spec fn mul_spec(self, rhs: Decimal) -> Decimal { Decimal(mul_floor(self.0 as nat, rhs.0 as nat) as u128) }
}
impl core::ops::Add for Decimal {
    type Output = Decimal;
    fn add(self, rhs: Decimal) -> (r: Decimal) { Decimal(self.0 + rhs.0) }
}
impl AddSpecImpl<Decimal> for Decimal {
    open spec fn obeys_add_spec() -> bool { true }
    open spec fn add_req(self, rhs: Decimal) -> bool { self.0 + rhs.0 <= u128::MAX }
    open spec fn add_spec(self, rhs: Decimal) -> Decimal { Decimal((self.0 + rhs.0) as u128) }
}
impl core::ops::Sub for Decimal {
    type Output = Decimal;
    fn sub(self, rhs: Decimal) -> (r: Decimal) { Decimal(self.0 - rhs.0) }
}
impl SubSpecImpl<Decimal> for Decimal {
    open spec fn obeys_sub_spec() -> bool { true }
    open spec fn sub_req(self, rhs: Decimal) -> bool { self.0 >= rhs.0 }
    open spec fn sub_spec(self, rhs: Decimal) -> Decimal { Decimal((self.0 - rhs.0) as u128) }
}

// ---------------------------------------------------------------- bigint::U256 / Uint256 / Decimal256
/// bigint::U256, abstracted to its mathematical value (ghost); every operation on it is an assumed
/// contract below, each of which keeps results <= U256MAX by precondition.
#[derive(Copy, Clone)]
pub struct U256 { pub g: Ghost<nat> }
impl U256 {
    pub open spec fn val(self) -> nat { self.g@ }
}
#[derive(Copy, Clone)]
pub struct Uint256(pub U256);
#[derive(Copy, Clone)]
pub struct Decimal256(pub U256);

impl Uint256 {
    pub open spec fn v(self) -> nat { self.0.val() }
    pub fn zero() -> (r: Uint256) ensures r.v() == 0 { Uint256(U256 { g: Ghost(0) }) }
    pub fn one() -> (r: Uint256) ensures r.v() == 1 { Uint256(U256 { g: Ghost(1) }) }
    #[verifier::external_body]
    pub fn is_zero(&self) -> (r: bool) ensures r == (self.v() == 0) { unimplemented!() }
    #[verifier::external_body]
    pub fn from<T: DecNum>(x: T) -> (r: Uint256) ensures r.v() == x.numval() { unimplemented!() }
}
impl Decimal256 {
    pub open spec fn v(self) -> nat { self.0.val() }
    pub fn zero() -> (r: Decimal256) ensures r.v() == 0 { Decimal256(U256 { g: Ghost(0) }) }
    pub fn one() -> (r: Decimal256) ensures r.v() == E18() { Decimal256(U256 { g: Ghost(1_000_000_000_000_000_000) }) }
    #[verifier::external_body]
    pub fn is_zero(&self) -> (r: bool) ensures r == (self.v() == 0) { unimplemented!() }
    /// bignumber: nominator * 1e18 / denominator on bigint::U256 (`*` panics on 256-bit overflow)
    #[verifier::external_body]
    pub fn from_ratio(a: U256, b: U256) -> (r: Decimal256)
        requires b.val() != 0, a.val() * E18() <= U256MAX()
        ensures r.v() == ratio_floor(a.val(), b.val())
    { unimplemented!() }
    /// `From<Decimal> for Decimal256` goes through the decimal string; value preserving (A3)
    #[verifier::external_body]
    pub fn from(d: Decimal) -> (r: Decimal256) ensures r.v() == d.0 { unimplemented!() }
    #[verifier::external_body]
    pub fn from_uint256(x: Uint256) -> (r: Decimal256)
        requires x.v() * E18() <= U256MAX()
        ensures r.v() == x.v() * E18()
    { unimplemented!() }
}
/// `From<Decimal256> for Decimal`: asserts the atomics fit 128 bits
#[verifier::external_body]
pub fn decimal_from_256(d: Decimal256) -> (r: Decimal)
    requires d.v() <= u128::MAX
    ensures r.0 == d.v()
{ unimplemented!() }
/// `From<Uint256> for Uint128`: asserts the value fits 128 bits
#[verifier::external_body]
pub fn uint128_from_256(x: Uint256) -> (r: Uint128)
    requires x.v() <= u128::MAX
    ensures r.0 == x.v()
{ unimplemented!() }

impl core::cmp::PartialEq for Uint256 {
    #[verifier::external_body]
    fn eq(&self, o: &Uint256) -> (r: bool) ensures r == (self.v() == o.v()) { unimplemented!() }
}
impl PartialEqSpecImpl for Uint256 {
    open spec fn obeys_eq_spec() -> bool { true }
    open spec fn eq_spec(&self, o: &Uint256) -> bool { self.v() == o.v() }
}
impl PartialOrdSpecImpl for Uint256 {
    open spec fn obeys_partial_cmp_spec() -> bool { true }
    open spec fn partial_cmp_spec(&self, o: &Uint256) -> Option<Ordering> {
        if self.v() < o.v() { Some(Ordering::Less) } else if self.v() == o.v() { Some(Ordering::Equal) } else { Some(Ordering::Greater) }
    }
}
impl core::cmp::PartialOrd for Uint256 {
    #[verifier::external_body]
    fn partial_cmp(&self, o: &Uint256) -> (r: Option<Ordering>) { unimplemented!() }
    #[verifier::external_body]
    fn lt(&self, o: &Uint256) -> (r: bool) ensures r == (self.v() < o.v()) { unimplemented!() }
    #[verifier::external_body]
    fn le(&self, o: &Uint256) -> (r: bool) ensures r == (self.v() <= o.v()) { unimplemented!() }
    #[verifier::external_body]
    fn gt(&self, o: &Uint256) -> (r: bool) ensures r == (self.v() > o.v()) { unimplemented!() }
    #[verifier::external_body]
    fn ge(&self, o: &Uint256) -> (r: bool) ensures r == (self.v() >= o.v()) { unimplemented!() }
}
pub open spec fn u256_of(n: nat) -> U256 { U256 { g: Ghost(n) } }

impl core::ops::Add for Uint256 {
    type Output = Uint256;
    #[verifier::external_body]
    fn add(self, rhs: Uint256) -> (r: Uint256) { unimplemented!() }
}
impl AddSpecImpl<Uint256> for Uint256 {
    open spec fn obeys_add_spec() -> bool { true }
    open spec fn add_req(self, rhs: Uint256) -> bool { self.v() + rhs.v() <= U256MAX() }
    open spec fn add_spec(self, rhs: Uint256) -> Uint256 { Uint256(u256_of(self.v() + rhs.v())) }
}
impl core::ops::Sub for Uint256 {
    type Output = Uint256;
    #[verifier::external_body]
    fn sub(self, rhs: Uint256) -> (r: Uint256) { unimplemented!() }
}
impl SubSpecImpl<Uint256> for Uint256 {
    open spec fn obeys_sub_spec() -> bool { true }
    open spec fn sub_req(self, rhs: Uint256) -> bool { self.v() >= rhs.v() }
    open spec fn sub_spec(self, rhs: Uint256) -> Uint256 { Uint256(u256_of((self.v() - rhs.v()) as nat)) }
}
// Uint256 * Decimal256 = multiply_ratio(d, 1e18) = floor(a*d/1e18) (0 if either is 0); a*d must fit 256 bits
impl core::ops::Mul<Decimal256> for Uint256 {
    type Output = Uint256;
    #[verifier::external_body]
    fn mul(self, rhs: Decimal256) -> (r: Uint256) { unimplemented!() }
}
impl MulSpecImpl<Decimal256> for Uint256 {
    open spec fn obeys_mul_spec() -> bool { true }
    open spec fn mul_req(self, rhs: Decimal256) -> bool { self.v() * rhs.v() <= U256MAX() }
    open spec fn mul_spec(self, rhs: Decimal256) -> Uint256 { Uint256(u256_of(mul_floor(self.v(), rhs.v()))) }
}
impl core::ops::Mul<Uint256> for Decimal256 {
    type Output = Uint256;
    #[verifier::external_body]
    fn mul(self, rhs: Uint256) -> (r: Uint256) { unimplemented!() }
}
impl MulSpecImpl<Uint256> for Decimal256 {
    open spec fn obeys_mul_spec() -> bool { true }
    open spec fn mul_req(self, rhs: Uint256) -> bool { self.v() * rhs.v() <= U256MAX() }
    open spec fn mul_spec(self, rhs: Uint256) -> Uint256 { Uint256(u256_of(mul_floor(rhs.v(), self.v()))) }
}
// Decimal256 ops
impl core::ops::Add for Decimal256 {
    type Output = Decimal256;
    #[verifier::external_body]
    fn add(self, rhs: Decimal256) -> (r: Decimal256) { unimplemented!() }
}
impl AddSpecImpl<Decimal256> for Decimal256 {
    open spec fn obeys_add_spec() -> bool { true }
    open spec fn add_req(self, rhs: Decimal256) -> bool { self.v() + rhs.v() <= U256MAX() }
    open spec fn add_spec(self, rhs: Decimal256) -> Decimal256 { Decimal256(u256_of(self.v() + rhs.v())) }
}
impl core::ops::Sub for Decimal256 {
    type Output = Decimal256;
    #[verifier::external_body]
    fn sub(self, rhs: Decimal256) -> (r: Decimal256) { unimplemented!() }
}
impl SubSpecImpl<Decimal256> for Decimal256 {
    open spec fn obeys_sub_spec() -> bool { true }
    open spec fn sub_req(self, rhs: Decimal256) -> bool { self.v() >= rhs.v() }
    open spec fn sub_spec(self, rhs: Decimal256) -> Decimal256 { Decimal256(u256_of((self.v() - rhs.v()) as nat)) }
}
impl core::ops::Mul<Decimal256> for Decimal256 {
    type Output = Decimal256;
    #[verifier::external_body]
    fn mul(self, rhs: Decimal256) -> (r: Decimal256) { unimplemented!() }
}
impl MulSpecImpl<Decimal256> for Decimal256 {
    open spec fn obeys_mul_spec() -> bool { true }
    open spec fn mul_req(self, rhs: Decimal256) -> bool { self.v() * rhs.v() <= U256MAX() }
    open spec fn mul_spec(self, rhs: Decimal256) -> Decimal256 { Decimal256(u256_of(mul_floor(self.v(), rhs.v()))) }
}
impl core::ops::Div<Decimal256> for Decimal256 {
    type Output = Decimal256;
    #[verifier::external_body]
    fn div(self, rhs: Decimal256) -> (r: Decimal256) { unimplemented!() }
}
impl DivSpecImpl<Decimal256> for Decimal256 {
    open spec fn obeys_div_spec() -> bool { true }
    open spec fn div_req(self, rhs: Decimal256) -> bool { rhs.v() != 0 && self.v() * E18() <= U256MAX() }
    open spec fn div_spec(self, rhs: Decimal256) -> Decimal256 { Decimal256(u256_of(ratio_floor(self.v(), rhs.v()))) }
}
impl core::cmp::PartialEq for Decimal256 {
    #[verifier::external_body]
    fn eq(&self, o: &Decimal256) -> (r: bool) ensures r == (self.v() == o.v()) { unimplemented!() }
}
impl PartialEqSpecImpl for Decimal256 {
    open spec fn obeys_eq_spec() -> bool { true }
    open spec fn eq_spec(&self, o: &Decimal256) -> bool { self.v() == o.v() }
}

/// exec side of DecNum: `Into<Uint128>` as used by SignedInt::from_subtraction (rewrite R13):
/// identity for Uint128; bignumber's asserting conversion for Uint256.
pub trait DecNumExec: DecNum {
    fn into128(self) -> (r: Uint128)
        requires self.fits128()
        ensures r.0 == self.numval();
}

/// `Result<Uint128, StdError>::unwrap_or_default()` (rewrite R15): Uint128::default() is zero
pub trait UnwrapOrZero { fn unwrap_or_zero(self) -> Uint128; }
impl UnwrapOrZero for Result<Uint128, StdError> {
    fn unwrap_or_zero(self) -> (o: Uint128)
        ensures self is Ok ==> o == self->Ok_0, self is Err ==> o.0 == 0
    { match self { Ok(v) => v, Err(_) => Uint128(0) } }
}

#[verifier::external]
impl core::fmt::Display for Uint128 { fn fmt(&self, f: &mut core::fmt::Formatter<'_>) -> core::fmt::Result { write!(f, "{}", self.0) } }
#[verifier::external]
impl core::fmt::Display for Decimal { fn fmt(&self, f: &mut core::fmt::Formatter<'_>) -> core::fmt::Result { write!(f, "{}", self.0) } }

impl FromSpecImpl<Decimal> for Decimal256 {
    open spec fn obeys_from_spec() -> bool { true }
    open spec fn from_spec(d: Decimal) -> Decimal256 { Decimal256(u256_of(d.0 as nat)) }
}
impl From<Decimal> for Decimal256 {
    #[verifier::external_body]
    fn from(d: Decimal) -> (r: Decimal256) { unimplemented!() }
}
pub struct OverflowError { pub kind: u8 }

impl UnwrapOrZero for Option<Uint128> {
    fn unwrap_or_zero(self) -> (o: Uint128)
        ensures self is Some ==> o == self->Some_0, self is None ==> o.0 == 0
    { match self { Some(v) => v, None => Uint128(0) } }
}
