// ===== shim/msum.rs : finite map sums (proved, no assumptions) =====
pub open spec fn msum<K>(m: Map<K, int>) -> int
    decreases m.dom().len() when m.dom().finite()
{
    if m.dom().len() == 0 { 0 } else { let k = m.dom().choose(); m[k] + msum(m.remove(k)) }
}
pub open spec fn get0<K>(m: Map<K, int>, k: K) -> int { if m.dom().contains(k) { m[k] } else { 0 } }
/// removing any key (not only the chosen one) peels off its value
pub proof fn lemma_msum_remove<K>(m: Map<K, int>, k: K)
    requires m.dom().finite(), m.dom().contains(k)
    ensures msum(m) == m[k] + msum(m.remove(k))
    decreases m.dom().len()
{
    let c = m.dom().choose();
    assert(m.dom().len() > 0) by { if m.dom().len() == 0 { assert(m.dom() =~= Set::empty()); } }
    if c != k {
        lemma_msum_remove(m.remove(c), k);
        lemma_msum_remove(m.remove(k), c);
        assert(m.remove(c).remove(k) =~= m.remove(k).remove(c));
    }
}
/// update law: sum(m[k := v]) = sum(m) - m[k] (0 if absent) + v
pub proof fn lemma_msum_insert<K>(m: Map<K, int>, k: K, v: int)
    requires m.dom().finite()
    ensures msum(m.insert(k, v)) == msum(m) - get0(m, k) + v
{
    let m2 = m.insert(k, v);
    lemma_msum_remove(m2, k);
    assert(m2.remove(k) =~= m.remove(k));
    if m.dom().contains(k) { lemma_msum_remove(m, k); } else { assert(m.remove(k) =~= m); }
}
/// pointwise relation lifted to sums: if every value of m2 is value of m1 plus d * weight, sums differ by d * weight-sum
pub proof fn lemma_msum_shift<K>(m1: Map<K, int>, m2: Map<K, int>, w: Map<K, int>, d: int)
    requires m1.dom().finite(), m2.dom() == m1.dom(), w.dom() == m1.dom(),
             forall|k: K| m1.dom().contains(k) ==> #[trigger] m2[k] == m1[k] + d * w[k]
    ensures msum(m2) == msum(m1) + d * msum(w)
    decreases m1.dom().len()
{
    if m1.dom().len() == 0 {
        assert(d * 0 == 0) by(nonlinear_arith);
    } else {
        let k = m1.dom().choose();
        lemma_msum_remove(m1, k); lemma_msum_remove(m2, k); lemma_msum_remove(w, k);
        lemma_msum_shift(m1.remove(k), m2.remove(k), w.remove(k), d);
        assert(d * (w[k] + msum(w.remove(k))) == d * w[k] + d * msum(w.remove(k))) by(nonlinear_arith);
    }
}
pub proof fn lemma_msum_nonneg<K>(m: Map<K, int>)
    requires m.dom().finite(), forall|k: K| m.dom().contains(k) ==> #[trigger] m[k] >= 0
    ensures msum(m) >= 0
    decreases m.dom().len()
{
    if m.dom().len() != 0 { let k = m.dom().choose(); lemma_msum_nonneg(m.remove(k)); }
}
