// ===== shim/arith.rs : proved arithmetic lemmas about the opaque spec functions (no assumptions) =====
pub proof fn lemma_mul_floor_e18(x: nat)
    ensures mul_floor(E18(), x) == x, mul_floor(x, E18()) == x
{
    reveal(mul_floor);
    lemma_div_multiples_vanish(x as int, E18() as int);
    assert(E18() * x == x * E18()) by(nonlinear_arith);
}
pub proof fn lemma_mul_floor_zero(x: nat)
    ensures mul_floor(0, x) == 0, mul_floor(x, 0) == 0
{
    reveal(mul_floor);
    assert(0 * x == 0) by(nonlinear_arith);
    assert(x * 0 == 0) by(nonlinear_arith);
}
/// floor(a*d/1e18) <= a when d <= 1e18
pub proof fn lemma_mul_floor_le(a: nat, d: nat)
    requires d <= E18()
    ensures mul_floor(a, d) <= a
{
    reveal(mul_floor);
    assert(a * d <= a * E18()) by(nonlinear_arith) requires d <= E18();
    lemma_div_is_ordered((a * d) as int, (a * E18()) as int, E18() as int);
    lemma_div_multiples_vanish(a as int, E18() as int);
    assert(a * E18() == E18() * a) by(nonlinear_arith);
}
pub proof fn lemma_mul_floor_mono(a: nat, b: nat, d: nat)
    requires a <= b
    ensures mul_floor(a, d) <= mul_floor(b, d)
{
    reveal(mul_floor);
    assert(a * d <= b * d) by(nonlinear_arith) requires a <= b;
    lemma_div_is_ordered((a * d) as int, (b * d) as int, E18() as int);
}
pub proof fn lemma_mul_floor_mono_d(a: nat, d1: nat, d2: nat)
    requires d1 <= d2
    ensures mul_floor(a, d1) <= mul_floor(a, d2)
{
    reveal(mul_floor);
    assert(a * d1 <= a * d2) by(nonlinear_arith) requires d1 <= d2;
    lemma_div_is_ordered((a * d1) as int, (a * d2) as int, E18() as int);
}
/// bounds: mul_floor(a,d) * 1e18 <= a*d < (mul_floor(a,d)+1) * 1e18
pub proof fn lemma_mul_floor_bounds(a: nat, d: nat)
    ensures mul_floor(a, d) * E18() <= a * d, a * d < (mul_floor(a, d) + 1) * E18()
{
    reveal(mul_floor);
    lemma_fundamental_div_mod((a * d) as int, E18() as int);
    lemma_mod_bound((a * d) as int, E18() as int);
    let q = (a * d) / E18();
    assert(E18() * q == q * E18()) by(nonlinear_arith);
    assert((q + 1) * E18() == q * E18() + E18()) by(nonlinear_arith);
}
pub proof fn lemma_mul_floor_upper(a: nat, d: nat, amax: nat, dmax: nat)
    requires a <= amax, d <= dmax
    ensures mul_floor(a, d) <= (amax * dmax) / E18()
{
    reveal(mul_floor);
    assert(a * d <= amax * dmax) by(nonlinear_arith) requires a <= amax, d <= dmax;
    lemma_div_is_ordered((a * d) as int, (amax * dmax) as int, E18() as int);
}
/// bounds: ratio_floor(a,b) * b <= a*1e18 < (ratio_floor(a,b)+1) * b
pub proof fn lemma_ratio_bounds(a: nat, b: nat)
    requires b > 0
    ensures ratio_floor(a, b) * b <= a * E18(), a * E18() < (ratio_floor(a, b) + 1) * b
{
    reveal(ratio_floor);
    lemma_fundamental_div_mod((a * E18()) as int, b as int);
    lemma_mod_bound((a * E18()) as int, b as int);
    let q = (a * E18()) / b;
    assert(b * q == q * b) by(nonlinear_arith);
    assert((q + 1) * b == q * b + b) by(nonlinear_arith);
}
pub proof fn lemma_ratio_upper(a: nat, b: nat, amax: nat)
    requires b > 0, a <= amax
    ensures ratio_floor(a, b) <= amax * E18()
{
    reveal(ratio_floor);
    assert(a * E18() <= amax * E18()) by(nonlinear_arith) requires a <= amax;
    lemma_div_is_ordered((a * E18()) as int, (amax * E18()) as int, b as int);
    lemma_div_is_ordered_by_denominator((amax * E18()) as int, 1, b as int);
    lemma_div_basics((amax * E18()) as int);
}
pub proof fn lemma_ratio_zero(b: nat)
    ensures ratio_floor(0, b) == 0
{
    reveal(ratio_floor);
    assert(0 * E18() == 0) by(nonlinear_arith);
    if b > 0 { lemma_div_basics(b as int); }
}
/// ratio_floor(a, a) == 1e18
pub proof fn lemma_ratio_self(a: nat)
    requires a > 0
    ensures ratio_floor(a, a) == E18()
{
    reveal(ratio_floor);
    lemma_div_multiples_vanish(E18() as int, a as int);
    assert(a * E18() == E18() * a) by(nonlinear_arith);
}
/// a <= b  ==> ratio <= 1e18 ;  a >= b ==> ratio >= 1e18
pub proof fn lemma_ratio_vs_one(a: nat, b: nat)
    requires b > 0
    ensures a <= b ==> ratio_floor(a, b) <= E18(), a >= b ==> ratio_floor(a, b) >= E18(), a < b ==> ratio_floor(a, b) < E18()
{
    lemma_ratio_bounds(a, b);
    let r = ratio_floor(a, b);
    if a <= b && r > E18() {
        assert(r * b >= (E18() + 1) * b) by(nonlinear_arith) requires r >= E18() + 1;
        assert((E18() + 1) * b > a * E18()) by(nonlinear_arith) requires a <= b, b > 0;
    }
    if a >= b && r < E18() {
        assert((r + 1) * b <= E18() * b) by(nonlinear_arith) requires r + 1 <= E18();
        assert(E18() * b <= a * E18()) by(nonlinear_arith) requires a >= b;
    }
    if a < b && r >= E18() {
        assert(r * b >= E18() * b) by(nonlinear_arith) requires r >= E18();
        assert(E18() * b > a * E18()) by(nonlinear_arith) requires a < b;
    }
}
/// dividing by a rate <= 1 never shrinks: floor(p*1e18/r) >= p for 0 < r <= 1e18
pub proof fn lemma_ratio_ge_when_rate_le_one(p: nat, r: nat)
    requires 0 < r <= E18()
    ensures ratio_floor(p, r) >= p
{
    lemma_ratio_bounds(p, r);
    let q = ratio_floor(p, r);
    if q < p {
        assert((q + 1) * r <= p * r) by(nonlinear_arith) requires q + 1 <= p;
        assert(p * r <= p * E18()) by(nonlinear_arith) requires r <= E18();
    }
}
/// dividing by a rate >= 1 never grows: floor(p*1e18/r) <= p for r >= 1e18
pub proof fn lemma_ratio_le_when_rate_ge_one(p: nat, r: nat)
    requires r >= E18()
    ensures ratio_floor(p, r) <= p
{
    lemma_ratio_bounds(p, r);
    let q = ratio_floor(p, r);
    if q > p {
        assert(q * r >= (p + 1) * r) by(nonlinear_arith) requires q >= p + 1;
        assert((p + 1) * r > p * E18()) by(nonlinear_arith) requires r >= E18();
    }
}
pub open spec fn min_nat(a: nat, b: nat) -> nat { if a <= b { a } else { b } }
