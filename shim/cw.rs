// ===== shim/cw.rs : typed abstraction of cosmwasm-std 1.5 (addresses, api, env, coins, messages,
// response, querier, serialization).  Every external_body / uninterp / axiom here is an assumption
// (A4, A6, A10) and is enumerated in the evidence by the mechanical scan. =====

// ---------------------------------------------------------------- addresses
pub struct Addr(pub String);
impl View for Addr { type V = Seq<char>; open spec fn view(&self) -> Seq<char> { self.0@ } }
impl Addr {
    pub fn to_string(&self) -> (r: String) ensures r@ == self@ { self.0.clone() }
    pub fn as_str(&self) -> (r: &str) ensures r@ == self@ { self.0.as_str() }
    #[verifier::external_body]
    pub fn unchecked(s: &str) -> (r: Addr) ensures r@ == s@ { unimplemented!() }
    pub fn into_string(self) -> (r: String) ensures r@ == self@ { self.0 }
}
impl Clone for Addr {
    fn clone(&self) -> (r: Addr) ensures r@ == self@ { Addr(self.0.clone()) }
}
impl PartialEq for Addr {
    #[verifier::external_body]
    fn eq(&self, other: &Addr) -> (r: bool) ensures r == (self@ == other@) { self.0 == other.0 }
}
impl PartialEq<String> for Addr {
    #[verifier::external_body]
    fn eq(&self, other: &String) -> (r: bool) ensures r == (self@ == other@) { unimplemented!() }
}
impl PartialEq<&str> for Addr {
    #[verifier::external_body]
    fn eq(&self, other: &&str) -> (r: bool) ensures r == (self@ == other@) { unimplemented!() }
}

pub struct CanonicalAddr(pub Vec<u8>);
impl View for CanonicalAddr { type V = Seq<u8>; open spec fn view(&self) -> Seq<u8> { self.0@ } }
impl Clone for CanonicalAddr {
    #[verifier::external_body]
    fn clone(&self) -> (r: CanonicalAddr) ensures r@ == self@ { unimplemented!() }
}
impl PartialEq for CanonicalAddr {
    #[verifier::external_body]
    fn eq(&self, other: &CanonicalAddr) -> (r: bool) ensures r == (self@ == other@) { unimplemented!() }
}

/// anything cosmwasm accepts as `impl Into<String>` for an address or denom
pub trait StrLike: Sized { spec fn s(self) -> Seq<char>; }
impl StrLike for String { open spec fn s(self) -> Seq<char> { self@ } }
impl StrLike for &String { open spec fn s(self) -> Seq<char> { self@ } }
impl StrLike for &str { open spec fn s(self) -> Seq<char> { self@ } }
impl StrLike for Addr { open spec fn s(self) -> Seq<char> { self@ } }
impl StrLike for &Addr { open spec fn s(self) -> Seq<char> { self@ } }

pub uninterp spec fn canon(h: Seq<char>) -> Seq<u8>;
pub uninterp spec fn human(c: Seq<u8>) -> Seq<char>;
pub uninterp spec fn addr_valid(h: Seq<char>) -> bool;
/// canonical addresses produced by the api can be humanized again
pub uninterp spec fn canon_ok(c: Seq<u8>) -> bool;

pub struct Api { pub _p: u8 }
impl Api {
    /// A10: on success the canonical form round-trips (bech32 / mock api normalisation)
    #[verifier::external_body]
    pub fn addr_canonicalize(&self, h: &str) -> (r: StdResult<CanonicalAddr>)
        ensures r is Ok ==> r->Ok_0@ == canon(h@) && human(canon(h@)) == h@ && canon_ok(canon(h@)),
                r is Ok <==> addr_valid(h@),
    { unimplemented!() }
    #[verifier::external_body]
    pub fn addr_humanize(&self, c: &CanonicalAddr) -> (r: StdResult<Addr>)
        ensures r is Ok ==> r->Ok_0@ == human(c@) && canon(human(c@)) == c@ && addr_valid(human(c@)),
                r is Ok <==> canon_ok(c@),
    { unimplemented!() }
    #[verifier::external_body]
    pub fn addr_validate(&self, h: &str) -> (r: StdResult<Addr>)
        ensures r is Ok ==> r->Ok_0@ == h@ && addr_valid(h@),
                r is Ok <==> addr_valid(h@),
    { unimplemented!() }
}

// ---------------------------------------------------------------- env / info
pub struct Timestamp { pub secs: u64 }
impl Timestamp {
    pub fn seconds(&self) -> (r: u64) ensures r == self.secs { self.secs }
}
pub struct BlockInfo { pub height: u64, pub time: Timestamp }
pub struct ContractInfo { pub address: Addr }
pub struct Env { pub block: BlockInfo, pub contract: ContractInfo }
impl Clone for Env {
    #[verifier::external_body]
    fn clone(&self) -> (r: Env) ensures r.block.time.secs == self.block.time.secs, r.block.height == self.block.height, r.contract.address@ == self.contract.address@ { unimplemented!() }
}
pub struct MessageInfo { pub sender: Addr, pub funds: Vec<Coin> }

// ---------------------------------------------------------------- coins
pub struct Coin { pub denom: String, pub amount: Uint128 }
pub struct CoinV { pub denom: Seq<char>, pub amount: nat }
impl View for Coin { type V = CoinV; open spec fn view(&self) -> CoinV { CoinV { denom: self.denom@, amount: self.amount.0 as nat } } }
impl Clone for Coin {
    fn clone(&self) -> (r: Coin) ensures r@ == self@ { Coin { denom: self.denom.clone(), amount: self.amount } }
}
impl Coin {
    #[verifier::external_body]
    pub fn to_string(&self) -> (r: String) { unimplemented!() }
    #[verifier::external_body]
    pub fn new<D: StrLike>(amount: u128, denom: D) -> (r: Coin) ensures r.amount.0 == amount, r.denom@ == denom.s() { unimplemented!() }
}
#[verifier::external_body]
pub fn coin<D: StrLike>(amount: u128, denom: D) -> (r: Coin) ensures r.amount.0 == amount, r.denom@ == denom.s() { unimplemented!() }
#[verifier::external_body]
pub fn coins<D: StrLike>(amount: u128, denom: D) -> (r: Vec<Coin>) ensures r@.len() == 1, r@[0].amount.0 == amount, r@[0].denom@ == denom.s() { unimplemented!() }
pub open spec fn coins_v(cs: Seq<Coin>) -> Seq<CoinV> { cs.map_values(|c: Coin| c@) }

// ---------------------------------------------------------------- serialization (A4)
pub struct Binary(pub Vec<u8>);
impl View for Binary { type V = Seq<u8>; open spec fn view(&self) -> Seq<u8> { self.0@ } }
impl Clone for Binary {
    #[verifier::external_body]
    fn clone(&self) -> (r: Binary) ensures r@ == self@ { unimplemented!() }
}
pub uninterp spec fn enc<T>(t: T) -> Seq<u8>;
pub uninterp spec fn dec<T>(b: Seq<u8>) -> T;
/// A4: JSON encoding round-trips every message / stored type
#[verifier::external_body]
pub broadcast proof fn axiom_dec_enc<T>(t: T)
    ensures #[trigger] dec::<T>(enc::<T>(t)) == t
{ }
/// A4: exactly the byte strings that are encodings decode successfully
pub uninterp spec fn decodable<T>(b: Seq<u8>) -> bool;
#[verifier::external_body]
pub broadcast proof fn axiom_decodable_enc<T>(t: T)
    ensures #[trigger] decodable::<T>(enc::<T>(t))
{ }
#[verifier::external_body]
pub fn to_json_binary<T>(t: &T) -> (r: StdResult<Binary>)
    ensures r is Ok, r->Ok_0@ == enc::<T>(*t)
{ unimplemented!() }
#[verifier::external_body]
pub fn to_json_vec<T>(t: &T) -> (r: StdResult<Vec<u8>>)
    ensures r is Ok, r->Ok_0@ == enc::<T>(*t)
{ unimplemented!() }
#[verifier::external_body]
pub fn from_json<T>(b: &Binary) -> (r: StdResult<T>)
    ensures r is Ok ==> r->Ok_0 == dec::<T>(b@), r is Ok <==> decodable::<T>(b@)
{ unimplemented!() }

// ---------------------------------------------------------------- messages
pub enum StakingMsg {
    Delegate { validator: String, amount: Coin },
    Undelegate { validator: String, amount: Coin },
    Redelegate { src_validator: String, dst_validator: String, amount: Coin },
}
pub enum BankMsg { Send { to_address: String, amount: Vec<Coin> } }
pub enum DistributionMsg {
    SetWithdrawAddress { address: String },
    WithdrawDelegatorReward { validator: String },
}
pub enum WasmMsg { Execute { contract_addr: String, msg: Binary, funds: Vec<Coin> } }
pub enum CosmosMsg { Staking(StakingMsg), Bank(BankMsg), Distribution(DistributionMsg), Wasm(WasmMsg) }

pub enum MsgV {
    Delegate { validator: Seq<char>, denom: Seq<char>, amount: nat },
    Undelegate { validator: Seq<char>, denom: Seq<char>, amount: nat },
    Redelegate { src: Seq<char>, dst: Seq<char>, denom: Seq<char>, amount: nat },
    Send { to: Seq<char>, coins: Seq<CoinV> },
    SetWithdrawAddress { address: Seq<char> },
    WithdrawReward { validator: Seq<char> },
    Execute { contract: Seq<char>, payload: Seq<u8>, funds: Seq<CoinV> },
}
impl View for CosmosMsg {
    type V = MsgV;
    open spec fn view(&self) -> MsgV {
        match *self {
            CosmosMsg::Staking(StakingMsg::Delegate { validator, amount }) => MsgV::Delegate { validator: validator@, denom: amount.denom@, amount: amount.amount.0 as nat },
            CosmosMsg::Staking(StakingMsg::Undelegate { validator, amount }) => MsgV::Undelegate { validator: validator@, denom: amount.denom@, amount: amount.amount.0 as nat },
            CosmosMsg::Staking(StakingMsg::Redelegate { src_validator, dst_validator, amount }) => MsgV::Redelegate { src: src_validator@, dst: dst_validator@, denom: amount.denom@, amount: amount.amount.0 as nat },
            CosmosMsg::Bank(BankMsg::Send { to_address, amount }) => MsgV::Send { to: to_address@, coins: coins_v(amount@) },
            CosmosMsg::Distribution(DistributionMsg::SetWithdrawAddress { address }) => MsgV::SetWithdrawAddress { address: address@ },
            CosmosMsg::Distribution(DistributionMsg::WithdrawDelegatorReward { validator }) => MsgV::WithdrawReward { validator: validator@ },
            CosmosMsg::Wasm(WasmMsg::Execute { contract_addr, msg, funds }) => MsgV::Execute { contract: contract_addr@, payload: msg@, funds: coins_v(funds@) },
        }
    }
}
pub open spec fn msgs_v(s: Seq<CosmosMsg>) -> Seq<MsgV> { s.map_values(|m: CosmosMsg| m@) }

impl FromSpecImpl<BankMsg> for CosmosMsg {
    open spec fn obeys_from_spec() -> bool { true }
    open spec fn from_spec(m: BankMsg) -> CosmosMsg { CosmosMsg::Bank(m) }
}
impl From<BankMsg> for CosmosMsg { fn from(m: BankMsg) -> (r: CosmosMsg) { CosmosMsg::Bank(m) } }
impl FromSpecImpl<StakingMsg> for CosmosMsg {
    open spec fn obeys_from_spec() -> bool { true }
    open spec fn from_spec(m: StakingMsg) -> CosmosMsg { CosmosMsg::Staking(m) }
}
impl From<StakingMsg> for CosmosMsg { fn from(m: StakingMsg) -> (r: CosmosMsg) { CosmosMsg::Staking(m) } }
impl FromSpecImpl<WasmMsg> for CosmosMsg {
    open spec fn obeys_from_spec() -> bool { true }
    open spec fn from_spec(m: WasmMsg) -> CosmosMsg { CosmosMsg::Wasm(m) }
}
impl From<WasmMsg> for CosmosMsg { fn from(m: WasmMsg) -> (r: CosmosMsg) { CosmosMsg::Wasm(m) } }
impl FromSpecImpl<DistributionMsg> for CosmosMsg {
    open spec fn obeys_from_spec() -> bool { true }
    open spec fn from_spec(m: DistributionMsg) -> CosmosMsg { CosmosMsg::Distribution(m) }
}
impl From<DistributionMsg> for CosmosMsg { fn from(m: DistributionMsg) -> (r: CosmosMsg) { CosmosMsg::Distribution(m) } }

pub struct SubMsg { pub id: u64, pub msg: CosmosMsg }
impl SubMsg {
    pub fn new(msg: CosmosMsg) -> (r: SubMsg) ensures r.msg == msg, r.id == 0 { SubMsg { id: 0, msg } }
}
pub open spec fn sub_v(s: Seq<SubMsg>) -> Seq<MsgV> { s.map_values(|m: SubMsg| m.msg@) }

pub struct Attribute { pub key: String, pub value: String }
#[verifier::external_body]
pub fn attr<K, V>(k: K, v: V) -> (r: Attribute) { unimplemented!() }

pub struct Response { pub messages: Vec<SubMsg>, pub attributes: Vec<Attribute>, pub data: Option<Binary> }
impl Response {
    /// the emitted messages, in order, as pure values
    pub open spec fn mv(self) -> Seq<MsgV> { sub_v(self.messages@) }
    pub fn new() -> (r: Response) ensures r.mv() == Seq::<MsgV>::empty(), r.messages@.len() == 0 {
        let r = Response { messages: Vec::new(), attributes: Vec::new(), data: None };
        proof { assert(r.mv() =~= Seq::<MsgV>::empty()); }
        r
    }
    pub fn default() -> (r: Response) ensures r.mv() == Seq::<MsgV>::empty(), r.messages@.len() == 0 { Response::new() }
    #[verifier::external_body]
    pub fn add_messages(self, m: Vec<CosmosMsg>) -> (r: Response)
        ensures r.mv() == self.mv() + msgs_v(m@), r.messages@.len() == self.messages@.len() + m@.len()
    { unimplemented!() }
    #[verifier::external_body]
    pub fn add_message<M: IntoCosmos>(self, m: M) -> (r: Response)
        ensures r.mv() == self.mv().push(m.cm()@), r.messages@.len() == self.messages@.len() + 1
    { unimplemented!() }
    #[verifier::external_body]
    pub fn add_submessages(self, m: Vec<SubMsg>) -> (r: Response)
        ensures r.mv() == self.mv() + sub_v(m@), r.messages@.len() == self.messages@.len() + m@.len()
    { unimplemented!() }
    #[verifier::external_body]
    pub fn add_attributes(self, a: Vec<Attribute>) -> (r: Response) ensures r.mv() == self.mv(), r.messages == self.messages { unimplemented!() }
    #[verifier::external_body]
    pub fn add_attribute<K, V>(self, k: K, v: V) -> (r: Response) ensures r.mv() == self.mv(), r.messages == self.messages { unimplemented!() }
}
pub trait IntoCosmos: Sized { spec fn cm(self) -> CosmosMsg; }
impl IntoCosmos for CosmosMsg { open spec fn cm(self) -> CosmosMsg { self } }
impl IntoCosmos for BankMsg { open spec fn cm(self) -> CosmosMsg { CosmosMsg::Bank(self) } }
impl IntoCosmos for WasmMsg { open spec fn cm(self) -> CosmosMsg { CosmosMsg::Wasm(self) } }
impl IntoCosmos for StakingMsg { open spec fn cm(self) -> CosmosMsg { CosmosMsg::Staking(self) } }

// ---------------------------------------------------------------- querier (A6)
pub struct Delegation { pub delegator: Addr, pub validator: String, pub amount: Coin }
pub struct FullDelegation { pub delegator: Addr, pub validator: String, pub amount: Coin, pub can_redelegate: Coin, pub accumulated_rewards: Vec<Coin> }
pub enum WasmQuery { Smart { contract_addr: String, msg: Binary } }
pub enum QueryRequest { Wasm(WasmQuery) }

pub struct Querier { pub _p: u8 }
impl Querier {
    pub uninterp spec fn delegations(self, delegator: Seq<char>) -> Seq<Delegation>;
    pub uninterp spec fn delegation(self, delegator: Seq<char>, validator: Seq<char>) -> Option<FullDelegation>;
    pub uninterp spec fn balance(self, addr: Seq<char>, denom: Seq<char>) -> nat;
    pub uninterp spec fn all_balances(self, addr: Seq<char>) -> Seq<Coin>;
    pub uninterp spec fn smart<T>(self, contract: Seq<char>, msg: Seq<u8>) -> StdResult<T>;

    #[verifier::external_body]
    pub fn query_all_delegations<D: StrLike>(&self, delegator: D) -> (r: StdResult<Vec<Delegation>>)
        ensures r is Ok, r->Ok_0@ == self.delegations(delegator.s())
    { unimplemented!() }
    #[verifier::external_body]
    pub fn query_delegation<D: StrLike, V: StrLike>(&self, delegator: D, validator: V) -> (r: StdResult<Option<FullDelegation>>)
        ensures r is Ok, r->Ok_0 == self.delegation(delegator.s(), validator.s())
    { unimplemented!() }
    #[verifier::external_body]
    pub fn query_balance<A: StrLike, D: StrLike>(&self, addr: A, denom: D) -> (r: StdResult<Coin>)
        ensures r is Ok, r->Ok_0.amount.0 == self.balance(addr.s(), denom.s()), r->Ok_0.denom@ == denom.s()
    { unimplemented!() }
    #[verifier::external_body]
    pub fn query_all_balances<A: StrLike>(&self, addr: A) -> (r: StdResult<Vec<Coin>>)
        ensures r is Ok, r->Ok_0@ == self.all_balances(addr.s())
    { unimplemented!() }
    #[verifier::external_body]
    pub fn query<T>(&self, q: &QueryRequest) -> (r: StdResult<T>)
        ensures q matches QueryRequest::Wasm(WasmQuery::Smart { contract_addr, msg }) ==> r == self.smart::<T>(contract_addr@, msg@)
    { unimplemented!() }
    #[verifier::external_body]
    pub fn query_wasm_smart<T, A: StrLike, M>(&self, addr: A, msg: &M) -> (r: StdResult<T>)
        ensures r == self.smart::<T>(addr.s(), enc::<M>(*msg))
    { unimplemented!() }
}

// ---------------------------------------------------------------- deps
pub struct Deps<'a> { pub storage: &'a Storage, pub api: &'a Api, pub querier: &'a Querier }
pub struct DepsMut<'a> { pub storage: &'a mut Storage, pub api: &'a Api, pub querier: &'a Querier }
impl<'a> DepsMut<'a> {
    #[verifier::external_body]
    pub fn as_ref(&self) -> (r: Deps<'_>)
        ensures *r.storage == *old(self.storage), r.api == self.api, r.querier == self.querier
    { unimplemented!() }
}
impl<'a> Clone for Deps<'a> {
    fn clone(&self) -> (r: Deps<'a>) ensures r == *self { Deps { storage: self.storage, api: self.api, querier: self.querier } }
}
impl<'a> Copy for Deps<'a> {}

// ---------------------------------------------------------------- std helpers without vstd specs
pub assume_specification<T: Default, E>[ Result::<T, E>::unwrap_or_default ](x: Result<T, E>) -> (o: T)
    ensures x is Ok ==> o == x->Ok_0;
/// typed `None` for the R8 search loop (lets rustc infer Option<&T> from the searched Vec)
pub fn none_of<T>(v: &Vec<T>) -> (r: Option<&T>) ensures r is None { None }
#[verifier::external]
impl core::fmt::Display for Addr { fn fmt(&self, f: &mut core::fmt::Formatter<'_>) -> core::fmt::Result { write!(f, "{}", self.0) } }
/// stands for a `format!(..)` whose text no clause specifies (drop D5)
#[verifier::external_body]
pub fn opaque_text() -> (r: String) { unimplemented!() }
impl CanonicalAddr {
    #[verifier::external_body]
    pub fn as_slice(&self) -> (r: &[u8]) ensures r@ == self@ { unimplemented!() }
}
pub type QuerierWrapper<'a> = &'a Querier;
pub open spec fn str_in(v: Seq<String>, x: Seq<char>) -> bool { exists|i: int| 0 <= i < v.len() && (#[trigger] v[i])@ == x }
/// `Vec<String>::contains` (rewrite R23)
#[verifier::external_body]
pub fn vec_contains_str(v: &Vec<String>, s: &String) -> (r: bool)
    ensures r == str_in(v@, s@)
{ unimplemented!() }
/// `v.retain(|x| x != &s)` (rewrite R24): keeps exactly the elements different from s
#[verifier::external_body]
pub fn vec_retain_ne(v: &mut Vec<String>, s: &String)
    ensures forall|x: Seq<char>| #[trigger] str_in(final(v)@, x) == (str_in(old(v)@, x) && x != s@),
{ unimplemented!() }
