//! Authorisation, pause and parameter ranges on the real hub `execute`: one message from one sender on an evolved state (C10, C11, C20).
use crate::{Driver, Outcome, Rng};
use crate::d_hubworld::setup;
use basset::hub::{Cw20HookMsg, ExecuteMsg, Parameters};
use basset_sei_hub::contract::execute;
use basset_sei_hub::state::{store_new_owner, NewOwnerAddr, PARAMETERS};
use cosmwasm_std::testing::{mock_env, mock_info};
use cosmwasm_std::{coins, to_json_binary, Api, Binary, Coin, Decimal, Order, Storage, Uint128};
use cw20::Cw20ReceiveMsg;
use serde_json::{json, Value};
use std::collections::BTreeMap;

pub struct HubAuth;
const SENDERS: [&str; 11] = ["owner", "nominee", "updater", "dispatcher", "registry", "bsei_token", "stsei_token", "airdrop", "reward", "alice", "cosmos2contract"];
const MSGS: [&str; 18] = ["update_config_partial", "update_config", "update_params", "set_owner", "accept_ownership", "bond", "bond_stsei", "bond_rewards", "update_global", "withdraw", "check_slashing",
    "receive_unbond", "receive_convert", "claim_airdrop", "swap_hook", "redelegate_proxy", "migrate", "update_params_unpause"];
fn u(v: &Value) -> u128 { v.as_str().map(|s| s.parse().unwrap()).unwrap_or_else(|| v.as_u64().unwrap_or(0) as u128) }
const E18: u128 = 1_000_000_000_000_000_000;

impl Driver for HubAuth {
    fn gen(&self, rng: &mut Rng, _i: u64) -> Value {
        let fee = match rng.next() % 4 { 0 => Value::Null, 1 => json!((E18 + 1 + rng.below(E18)).to_string()), 2 => json!(E18.to_string()), _ => json!(rng.below(E18).to_string()) };
        let thr = match rng.next() % 3 { 0 => Value::Null, 1 => json!((E18 + rng.below(E18)).to_string()), _ => json!(rng.below(E18 + 1).to_string()) };
        json!({"msg": MSGS[(rng.next() % MSGS.len() as u64) as usize], "sender": SENDERS[(rng.next() % SENDERS.len() as u64) as usize], "paused": rng.next() % 3 == 0,
               "legacy": rng.next() % 4 == 0, "amount": (1 + rng.amount(100_000)).to_string(), "fee": fee, "thr": thr, "stored_fee": rng.below(E18 + 1).to_string(), "airdrop_registered": rng.next() % 3 != 0, "stored_thr": (if rng.next() % 2 == 0 { E18 } else { rng.below(E18 + 1) }).to_string()})
    }
    fn run(&self, input: &Value) -> Outcome {
        let base = json!({"supply_b": "100000", "supply_s": "100000", "req_b": "10", "req_s": "10", "backing_b": "100010", "backing_s": "100010", "delegations": ["100010", "100010"], "balance": "0", "prev_balance": "0",
                          "fee": input["stored_fee"], "threshold": if input["stored_thr"].is_null() { json!("1000000000000000000") } else { input["stored_thr"].clone() }, "epoch_period": "30"});
        let mut deps = setup(&base);
        let paused = input["paused"].as_bool().unwrap_or(false);
        let mut p: Parameters = PARAMETERS.load(&deps.storage).unwrap(); p.paused = Some(paused); PARAMETERS.save(&mut deps.storage, &p).unwrap();
        store_new_owner(&mut deps.storage, &NewOwnerAddr { new_owner_addr: deps.api.addr_canonicalize("nominee").unwrap() }).unwrap();
        let airdrop_registered = input["airdrop_registered"].as_bool().unwrap_or(true);
        if !airdrop_registered { let mut cf = basset_sei_hub::state::CONFIG.load(&deps.storage).unwrap(); cf.airdrop_registry_contract = None; basset_sei_hub::state::CONFIG.save(&mut deps.storage, &cf).unwrap(); }
        let legacy = input["legacy"].as_bool().unwrap_or(false);
        if legacy { let mut k = vec![0u8, 4]; k.extend_from_slice(b"wait"); k.extend_from_slice(&[0, 7]); k.extend_from_slice(b"\"alice\""); k.extend_from_slice(b"1"); deps.storage.set(&k, b"\"5\""); }
        let sender = input["sender"].as_str().unwrap();
        let kind = input["msg"].as_str().unwrap();
        let amount = u(&input["amount"]);
        let dec = |v: &Value| -> Option<Decimal> { if v.is_null() { None } else { Some(Decimal::new(Uint128::new(u(v)))) } };
        let hook = |h: Cw20HookMsg| ExecuteMsg::Receive(Cw20ReceiveMsg { sender: "alice".into(), amount: Uint128::new(amount.min(1000)), msg: to_json_binary(&h).unwrap() });
        let mut funds: Vec<Coin> = vec![];
        let msg = match kind {
            "update_config" => ExecuteMsg::UpdateConfig { rewards_dispatcher_contract: Some("evil".into()), validators_registry_contract: None, bsei_token_contract: None, stsei_token_contract: None, airdrop_registry_contract: None, rewards_contract: None, update_reward_index_addr: Some("evil".into()) },
            "update_config_partial" => { let m = amount; let pick = |bit: u128, v: &str| if m & bit != 0 { Some(v.to_string()) } else { None };
                ExecuteMsg::UpdateConfig { rewards_dispatcher_contract: pick(1, "dispatcher2"), validators_registry_contract: pick(2, "registry2"), bsei_token_contract: None, stsei_token_contract: None,
                    airdrop_registry_contract: pick(4, "airdrop2"), rewards_contract: pick(8, "reward2"), update_reward_index_addr: pick(16, "updater2") } }
            "update_params" => ExecuteMsg::UpdateParams { epoch_period: Some(77), unbonding_period: None, peg_recovery_fee: dec(&input["fee"]), er_threshold: dec(&input["thr"]), paused: Some(paused), reward_denom: None },
            "update_params_unpause" => ExecuteMsg::UpdateParams { epoch_period: None, unbonding_period: None, peg_recovery_fee: None, er_threshold: None, paused: if amount % 2 == 0 { Some(false) } else { None }, reward_denom: None },
            "set_owner" => ExecuteMsg::SetOwner { new_owner_addr: "evil".into() },
            "accept_ownership" => ExecuteMsg::AcceptOwnership {},
            "bond" => { funds = coins(amount, "usei"); ExecuteMsg::Bond {} }
            "bond_stsei" => { funds = coins(amount, "usei"); ExecuteMsg::BondForStSei {} }
            "bond_rewards" => { funds = coins(amount, "usei"); ExecuteMsg::BondRewards {} }
            "update_global" => ExecuteMsg::UpdateGlobalIndex { airdrop_hooks: None },
            "withdraw" => ExecuteMsg::WithdrawUnbonded {},
            "check_slashing" => ExecuteMsg::CheckSlashing {},
            "receive_unbond" => hook(Cw20HookMsg::Unbond {}),
            "receive_convert" => hook(Cw20HookMsg::Convert {}),
            "claim_airdrop" => ExecuteMsg::ClaimAirdrop { airdrop_token_contract: "atoken".into(), airdrop_contract: "acontract".into(), airdrop_swap_contract: "aswap".into(), claim_msg: Binary::from(b"{}".to_vec()), swap_msg: Binary::from(b"{}".to_vec()) },
            "swap_hook" => ExecuteMsg::SwapHook { airdrop_token_contract: "atoken".into(), airdrop_swap_contract: "aswap".into(), swap_msg: Binary::from(b"{}".to_vec()) },
            "redelegate_proxy" => ExecuteMsg::RedelegateProxy { src_validator: "validator0".into(), redelegations: vec![("validator1".into(), Coin::new(5, "usei"))] },
            _ => ExecuteMsg::MigrateUnbondWaitList { limit: None },
        };
        let cfg0 = basset_sei_hub::state::CONFIG.load(&deps.storage).unwrap();
        let snap: Vec<(Vec<u8>, Vec<u8>)> = deps.storage.range(None, None, Order::Ascending).collect();
        let res = execute(deps.as_mut(), mock_env(), mock_info(sender, &funds), msg);
        let ok = res.is_ok();
        let mut c = BTreeMap::new();
        // C11: while paused only the owner's UpdateParams and the migration get through
        let exempt = kind.starts_with("update_params") || kind == "migrate";
        if paused && !exempt { c.insert("ha#C11.paused_blocks_everything_else".to_string(), !ok); }
        // C10: the designated principal of every privileged message (mock_env's contract address is the hub itself)
        let allowed: Option<Vec<&str>> = match kind {
            "update_config" | "update_config_partial" | "update_params" | "update_params_unpause" | "set_owner" => Some(vec!["owner"]),
            "accept_ownership" => Some(vec!["nominee"]),
            "bond_rewards" => Some(vec!["dispatcher"]),
            "update_global" => Some(vec!["updater", "registry"]),
            "receive_unbond" | "receive_convert" => Some(vec!["bsei_token", "stsei_token"]),
            "claim_airdrop" => Some(if airdrop_registered { vec!["airdrop"] } else { vec![] }),
            "swap_hook" => Some(vec!["cosmos2contract"]),
            "redelegate_proxy" => Some(vec!["registry"]),
            _ => None,
        };
        if let Some(al) = allowed { if !al.contains(&sender) { c.insert(format!("ha#C10.{}_rejected_for_other_senders", kind), !ok); } }
        // C11: no unpause while legacy entries remain
        let p1: Parameters = if ok { PARAMETERS.load(&deps.storage).unwrap() } else { p.clone() };
        if kind.starts_with("update_params") && ok && legacy { c.insert("ha#C11.no_unpause_with_legacy".to_string(), p1.paused == Some(true)); }
        // C20: ranges and immutables after every accepted message
        if ok {
            c.insert("ha#C20.params_in_range".to_string(), p1.er_threshold <= Decimal::one() && (p1.peg_recovery_fee <= Decimal::one() || p1.peg_recovery_fee == p.peg_recovery_fee) && p1.underlying_coin_denom == p.underlying_coin_denom);
            if kind == "update_params" {
                let want_fee = dec(&input["fee"]).unwrap_or(p.peg_recovery_fee);
                c.insert("ha#C20.fee_above_one_rejected".to_string(), want_fee <= Decimal::one());
                let want_thr = dec(&input["thr"]).map(|t| t.min(Decimal::one())).unwrap_or(p.er_threshold);
                c.insert("ha#C20.omitted_fields_keep_their_value".to_string(), p1.er_threshold == want_thr && p1.peg_recovery_fee == want_fee && p1.unbonding_period == p.unbonding_period && p1.reward_denom == p.reward_denom && p1.epoch_period == 77);
            } else if kind == "update_params_unpause" {
                c.insert("ha#C20.omitted_fields_keep_their_value".to_string(), p1.er_threshold == p.er_threshold && p1.peg_recovery_fee == p.peg_recovery_fee && p1.epoch_period == p.epoch_period
                    && p1.unbonding_period == p.unbonding_period && p1.reward_denom == p.reward_denom && p1.underlying_coin_denom == p.underlying_coin_denom);
            } else if !kind.starts_with("update_params") && kind != "migrate" {
                c.insert("ha#C20.only_update_params_changes_parameters".to_string(), p1 == p);
            }
        }
        if ok && kind == "update_config_partial" {
            // C20: a field the update omits keeps its stored value; a given one is stored
            let cfg1 = basset_sei_hub::state::CONFIG.load(&deps.storage).unwrap();
            let cn = |x: &str| Some(deps.api.addr_canonicalize(x).unwrap());
            let m = amount;
            let good = cfg1.reward_dispatcher_contract == (if m & 1 != 0 { cn("dispatcher2") } else { cfg0.reward_dispatcher_contract.clone() })
                && cfg1.validators_registry_contract == (if m & 2 != 0 { cn("registry2") } else { cfg0.validators_registry_contract.clone() })
                && cfg1.airdrop_registry_contract == (if m & 4 != 0 { cn("airdrop2") } else { cfg0.airdrop_registry_contract.clone() })
                && cfg1.rewards_contract == (if m & 8 != 0 { cn("reward2") } else { cfg0.rewards_contract.clone() })
                && cfg1.update_reward_index_addr == (if m & 16 != 0 { deps.api.addr_canonicalize("updater2").unwrap() } else { cfg0.update_reward_index_addr.clone() })
                && cfg1.bsei_token_contract == cfg0.bsei_token_contract && cfg1.stsei_token_contract == cfg0.stsei_token_contract && cfg1.creator == cfg0.creator;
            c.insert("ha#C20.config_omitted_fields_keep_their_value".to_string(), good);
        }
        let _ = snap;
        (c, json!({"accepted": ok, "err": res.err().map(|e| e.to_string()), "paused_after": p1.paused}))
    }
}
