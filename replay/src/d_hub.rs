use crate::Driver;
pub fn driver(_name: &str) -> Option<Box<dyn Driver>> { None }
