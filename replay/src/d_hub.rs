use crate::{Driver, Outcome, Rng};
use basset::hub::{State, UnbondHistory};
use basset_sei_hub::state::{read_unbond_history, store_unbond_history, STATE};
use basset_sei_hub::verif_hooks::{verif_calculate_new_withdraw_rate, verif_process_withdraw_rate};
use cosmwasm_bignumber::Uint256;
use cosmwasm_std::testing::mock_dependencies;
use cosmwasm_std::{Decimal, Uint128};
use serde_json::{json, Value};
use signed_integer::SignedInt;
use std::collections::BTreeMap;
use std::str::FromStr;

pub fn driver(name: &str) -> Option<Box<dyn Driver>> {
    match name {
        "calculate_new_withdraw_rate" => Some(Box::new(Cnwr)),
        "process_withdraw_rate" => Some(Box::new(PwrGroup)),
        _ => None,
    }
}
fn u(v: &Value) -> u128 { v.as_str().unwrap().parse().unwrap() }
fn dec_atomics(a: u128) -> Decimal { Decimal::new(Uint128::new(a)) }
const E18: u128 = 1_000_000_000_000_000_000;
fn mulf(a: u128, d: u128) -> u128 {
    // floor(a*d/1e18) in 256 bits via Uint256
    let r = Uint256::from(a) * cosmwasm_bignumber::Decimal256::from_str(&dec_atomics(d).to_string()).unwrap();
    let x: u128 = r.into(); x
}

/// kernel: one batch inside a release group
pub struct Cnwr;
impl Driver for Cnwr {
    fn gen(&self, rng: &mut Rng, _i: u64) -> Value {
        let amount = rng.amount(E18);
        let rate = match rng.next() % 4 { 0 => E18, 1 => E18 - rng.below(E18 / 2), _ => rng.amount(E18) };
        let ub = mulf(amount, rate);
        let total = ub + rng.amount(E18);
        let slashed = rng.amount(total.max(1));
        json!({"amount": amount.to_string(), "rate": rate.to_string(), "total": total.to_string(), "slashed": slashed.to_string(), "negative": rng.next() % 3 == 0})
    }
    fn run(&self, input: &Value) -> Outcome {
        let (amount, rate, total, slashed) = (u(&input["amount"]), u(&input["rate"]), u(&input["total"]), u(&input["slashed"]));
        let neg = input["negative"].as_bool().unwrap();
        let r2 = verif_calculate_new_withdraw_rate(Uint128::new(amount), dec_atomics(rate), Uint256::from(total), SignedInt(Uint128::new(slashed), neg));
        let new_rate = r2.atomics().u128();
        let before = mulf(amount, rate);
        let after = mulf(amount, new_rate);
        let mut c = BTreeMap::new();
        // shortage (slashed >= 0): a batch never gains, and loses at least its pro-rata share (rounded down)
        if !neg {
            c.insert("cnwr#no_gain_on_loss".to_string(), new_rate <= rate || amount == 0);
            c.insert("cnwr#value_not_above".to_string(), after <= before);
        } else {
            c.insert("cnwr#no_loss_on_surplus".to_string(), after + 1 >= before || amount == 0);
        }
        c.insert("cnwr#zero_amount_keeps_rate".to_string(), amount != 0 || new_rate == rate);
        (c, json!({"new_rate": new_rate.to_string(), "value_before": before.to_string(), "value_after": after.to_string()}))
    }
}

/// group: real process_withdraw_rate over stored histories; total payable vs. what arrived
pub struct PwrGroup;
impl Driver for PwrGroup {
    fn gen(&self, rng: &mut Rng, i: u64) -> Value {
        let n = 1 + (rng.next() % 4) as usize;
        let small = i % 2 == 0;
        let mut bs = vec![];
        let mut total: u128 = 0;
        let ht: u64 = if i % 3 == 0 { 5 + rng.next() % 20 } else { 1000 };
        let mut t: u64 = 5;
        let mut open_prefix = true;
        for _ in 0..n {
            t += rng.next() % 8;
            if t > ht { open_prefix = false; }
            let cap = if small { 1200 } else { E18 / 8 };
            let dust = i % 5 == 4;      // batches whose value rounds to zero (one base unit unbonded at a rate below 1)
            let (b, s) = if dust { ((rng.next() % 2) as u128, (rng.next() % 2) as u128) } else { (rng.amount(cap), rng.amount(cap)) };
            let br = if dust { E18 * 9 / 10 } else { match rng.next() % 3 { 0 => E18, 1 => E18 * 9 / 10, _ => E18 - rng.below(E18 / 2) } };
            let sr = if dust { E18 - 1 - rng.below(E18 / 2) } else { match rng.next() % 3 { 0 => E18, 1 => E18 + rng.below(E18 / 2), _ => E18 - rng.below(E18 / 2) } };
            if open_prefix { total += mulf(b, br) + mulf(s, sr); }
            bs.push(json!({"bsei": b.to_string(), "stsei": s.to_string(), "b_rate": br.to_string(), "s_rate": sr.to_string(), "time": t}));
        }
        let arrived = match rng.next() % 4 { 0 => total, 1 => total - rng.below(total / 5 + 1), 2 => total - rng.below(total + 1), _ => total + rng.below(50) };
        json!({"batches": bs, "arrived": arrived.to_string(), "ht": ht})
    }
    fn run(&self, input: &Value) -> Outcome {
        let mut deps = mock_dependencies();
        let arrived = u(&input["arrived"]);
        let bs = input["batches"].as_array().unwrap();
        let st = State { bsei_exchange_rate: Decimal::one(), stsei_exchange_rate: Decimal::one(), total_bond_bsei_amount: Uint128::zero(),
            total_bond_stsei_amount: Uint128::zero(), last_index_modification: 0, prev_hub_balance: Uint128::zero(), last_unbonded_time: 0, last_processed_batch: 0 };
        STATE.save(deps.as_mut().storage, &st).unwrap();
        let mut total: u128 = 0;
        for (i, b) in bs.iter().enumerate() {
            let h = UnbondHistory { batch_id: (i + 1) as u64, time: b["time"].as_u64().unwrap_or(10), bsei_amount: Uint128::new(u(&b["bsei"])), bsei_applied_exchange_rate: dec_atomics(u(&b["b_rate"])),
                bsei_withdraw_rate: dec_atomics(u(&b["b_rate"])), stsei_amount: Uint128::new(u(&b["stsei"])), stsei_applied_exchange_rate: dec_atomics(u(&b["s_rate"])),
                stsei_withdraw_rate: dec_atomics(u(&b["s_rate"])), released: false };
            store_unbond_history(deps.as_mut().storage, (i + 1) as u64, h).unwrap();
        }
        let mut dm = deps.as_mut();
        let ht = input["ht"].as_u64().unwrap_or(1000);
        // the batches that must be released: the maximal prefix whose time is <= ht
        let mut n_due = 0usize;
        for b in bs.iter() { if b["time"].as_u64().unwrap_or(10) <= ht { n_due += 1; } else { break; } }
        for b in bs.iter().take(n_due) { total += mulf(u(&b["bsei"]), u(&b["b_rate"])) + mulf(u(&b["stsei"]), u(&b["s_rate"])); }
        let res = verif_process_withdraw_rate(&mut dm, ht, Uint128::new(arrived));
        let mut c = BTreeMap::new();
        let mut paid: u128 = 0;
        let mut rates = vec![];
        let mut no_gain = true;
        let mut timelock = true;
        if res.is_ok() {
            for (i, b) in bs.iter().enumerate() {
                let h = read_unbond_history(deps.as_ref().storage, (i + 1) as u64).unwrap();
                if h.released && h.time > ht { timelock = false; }
                if h.released != (i < n_due) { no_gain = false; }
                if !h.released { rates.push(json!(["-", "-", false])); continue; }
                paid += mulf(u(&b["bsei"]), h.bsei_withdraw_rate.atomics().u128()) + mulf(u(&b["stsei"]), h.stsei_withdraw_rate.atomics().u128());
                if arrived <= total {
                    // per token type the loss is shared; a batch's payout never rises on a group loss of both types
                }
                rates.push(json!([h.bsei_withdraw_rate.atomics().to_string(), h.stsei_withdraw_rate.atomics().to_string(), h.released]));
            }
            c.insert("pwr#timelock".to_string(), timelock);
            c.insert("pwr#group_solvency".to_string(), paid <= arrived.max(0));
            c.insert("pwr#release_set".to_string(), no_gain);
        }
        c.insert("pwr#ok".to_string(), res.is_ok());
        (c, json!({"paid": paid.to_string(), "arrived": arrived.to_string(), "booked": total.to_string(), "rates": rates}))
    }
}
