//! Replay drivers: run recorded or searched inputs against the REAL /repo crates and evaluate the
//! clause predicates re-stated in executable Rust.
//!
//! usage:  krp-replay run <driver> '<json input>'       -> prints {"clauses": {name: bool}, "observed": ...}
//!         krp-replay search <driver> <seed> <budget> [clause]   -> prints first failing input or {"found": false}
use serde_json::{json, Value};
use std::collections::BTreeMap;

mod d_registry;
mod d_hub;
mod d_hubworld;
mod d_misc;
mod d_world2;
mod d_migrate;
mod d_reward;
mod d_token;
mod d_hubauth;
mod d_hubseq;
mod d_dispcfg;
mod d_stoken;

pub struct Rng(pub u64);
impl Rng {
    pub fn next(&mut self) -> u64 {
        let mut x = self.0;
        x ^= x << 13; x ^= x >> 7; x ^= x << 17;
        self.0 = x; x
    }
    pub fn below(&mut self, n: u128) -> u128 { if n == 0 { 0 } else { (((self.next() as u128) << 64) | self.next() as u128) % n } }
    /// magnitude-biased amount in [0, max]
    pub fn amount(&mut self, max: u128) -> u128 {
        match self.next() % 8 {
            0 => 0, 1 => 1, 2 => self.below(10), 3 => self.below(1000), 4 => max, 5 => max - self.below(3.min(max + 1)),
            _ => { let bits = self.next() % 61; self.below(1u128 << bits).min(max) }
        }
    }
}

pub type Outcome = (BTreeMap<String, bool>, Value);

pub trait Driver {
    fn run(&self, input: &Value) -> Outcome;
    fn gen(&self, rng: &mut Rng, i: u64) -> Value;
}

fn driver(name: &str) -> Box<dyn Driver> {
    match name {
        "calculate_delegations" => Box::new(d_registry::CalcDelegations),
        "calculate_undelegations" => Box::new(d_registry::CalcUndelegations),
        "hub_op" => Box::new(d_hubworld::HubOp),
        "registry_remove" => Box::new(d_world2::RegistryRemove),
        "dispatcher_swap" => Box::new(d_world2::DispatcherSwap),
        "registry_auth" => Box::new(d_world2::RegistryAuth),
        "hub_migrate" => Box::new(d_migrate::HubMigrate),
        "reward_world" => Box::new(d_reward::RewardWorld),
        "token_world" => Box::new(d_token::TokenWorld),
        "hub_auth" => Box::new(d_hubauth::HubAuth),
        "hub_seq" => Box::new(d_hubseq::HubSeq),
        "disp_cfg" => Box::new(d_dispcfg::DispCfg),
        "stoken_world" => Box::new(d_stoken::StTokenWorld),
        other => {
            if let Some(d) = d_hub::driver(other) { return d; }
            if let Some(d) = d_misc::driver(other) { return d; }
            eprintln!("unknown driver {}", other); std::process::exit(3)
        }
    }
}

fn guarded(d: &dyn Driver, input: &Value) -> Outcome {
    let r = std::panic::catch_unwind(std::panic::AssertUnwindSafe(|| d.run(input)));
    match r {
        Ok(o) => o,
        Err(_) => { let mut m = BTreeMap::new(); m.insert("#BODY".to_string(), false); (m, json!({"panic": true})) }
    }
}

fn main() {
    std::panic::set_hook(Box::new(|_| {}));
    let a: Vec<String> = std::env::args().collect();
    if a.len() < 3 { eprintln!("usage"); std::process::exit(3); }
    let d = driver(&a[2]);
    match a[1].as_str() {
        "run" => {
            let input: Value = serde_json::from_str(&a[3]).expect("json");
            let (cl, obs) = guarded(&*d, &input);
            println!("{}", json!({"driver": a[2], "input": input, "clauses": cl, "observed": obs}));
        }
        "search" => {
            let seed: u64 = a[3].parse().unwrap_or(1);
            let budget: u64 = a[4].parse().unwrap_or(20000);
            let want: Option<&str> = a.get(5).map(|s| s.as_str());
            let mut rng = Rng(seed.wrapping_mul(0x9E3779B97F4A7C15) | 1);
            for i in 0..budget {
                let input = d.gen(&mut rng, i);
                let (cl, obs) = guarded(&*d, &input);
                let bad: Vec<&String> = cl.iter().filter(|(k, v)| !**v && want.map_or(true, |w| k.as_str() == w || (w.ends_with('*') && k.starts_with(&w[..w.len() - 1])) || k.as_str() == "#BODY")).map(|(k, _)| k).collect();
                if !bad.is_empty() {
                    println!("{}", json!({"found": true, "tries": i + 1, "driver": a[2], "input": input, "failed": bad, "clauses": cl, "observed": obs}));
                    return;
                }
            }
            println!("{}", json!({"found": false, "tries": budget, "driver": a[2]}));
        }
        _ => { eprintln!("usage"); std::process::exit(3); }
    }
}
