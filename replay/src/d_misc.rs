use crate::{Driver, Outcome, Rng};
use basset_sei_rewards_dispatcher::contract::{execute_dispatch_rewards, verif_get_swap_info};
use basset_sei_rewards_dispatcher::state::{store_config, Config};
use cosmwasm_std::testing::{mock_dependencies_with_balances, mock_env, mock_info, MOCK_CONTRACT_ADDR};
use cosmwasm_std::{Api, BankMsg, Coin, CosmosMsg, Decimal, Fraction, Uint128, WasmMsg};
use serde_json::{json, Value};
use std::collections::BTreeMap;

const E18: u128 = 1_000_000_000_000_000_000;
fn u(v: &Value) -> u128 { v.as_str().unwrap().parse().unwrap() }
pub fn driver(name: &str) -> Option<Box<dyn Driver>> {
    match name {
        "dispatch_rewards" => Some(Box::new(Dispatch)),
        "get_swap_info" => Some(Box::new(SwapInfo)),
        "cw20_instantiate" => Some(Box::new(Cw20Instantiate)),
        "shim_arith" => Some(Box::new(ShimArith)),
        _ => None,
    }
}
fn config(api: &dyn Api, rate: u128) -> Config {
    let c = |s: &str| api.addr_canonicalize(s).unwrap();
    Config { owner: c("owner"), hub_contract: c("hub"), bsei_reward_contract: c("reward"), stsei_reward_denom: "usei".into(), bsei_reward_denom: "uusd".into(),
        krp_keeper_address: c("keeper"), krp_keeper_rate: Decimal::new(Uint128::new(rate)), swap_contract: c("swap"), swap_denoms: vec!["usei".into(), "uusd".into()], oracle_contract: c("oracle") }
}

pub struct Dispatch;
impl Driver for Dispatch {
    fn gen(&self, rng: &mut Rng, _i: u64) -> Value {
        let rate = match rng.next() % 5 { 0 => 0, 1 => E18, 2 => E18 / 20, 3 => E18 - 1, _ => rng.below(E18 + 1) };
        json!({"bal_b": rng.amount(E18).to_string(), "bal_s": rng.amount(E18).to_string(), "rate": rate.to_string()})
    }
    fn run(&self, input: &Value) -> Outcome {
        let (bal_b, bal_s, rate) = (u(&input["bal_b"]), u(&input["bal_s"]), u(&input["rate"]));
        let mut coins = vec![];
        if bal_b > 0 { coins.push(Coin::new(bal_b, "uusd")); }
        if bal_s > 0 { coins.push(Coin::new(bal_s, "usei")); }
        let mut deps = mock_dependencies_with_balances(&[(MOCK_CONTRACT_ADDR, &coins)]);
        let cfg = config(&deps.api, rate);
        store_config(deps.as_mut().storage, &cfg).unwrap();
        let res = execute_dispatch_rewards(deps.as_mut(), mock_env(), mock_info("hub", &[]));
        let mut c = BTreeMap::new();
        c.insert("disp#executes_for_every_balance".to_string(), res.is_ok());
        let mut obs = json!({});
        if let Ok(r) = res {
            let (mut zero, mut sent_b, mut sent_s) = (false, 0u128, 0u128);
            let mut list = vec![];
            for m in r.messages.iter() {
                match &m.msg {
                    CosmosMsg::Bank(BankMsg::Send { to_address, amount }) => {
                        for a in amount { if a.amount.is_zero() { zero = true; } if a.denom == "uusd" { sent_b += a.amount.u128(); } else { sent_s += a.amount.u128(); } list.push(json!([to_address, a.amount.to_string(), a.denom])); }
                    }
                    CosmosMsg::Wasm(WasmMsg::Execute { contract_addr, funds, .. }) => {
                        for a in funds { if a.denom == "uusd" { sent_b += a.amount.u128(); } else { sent_s += a.amount.u128(); } list.push(json!([contract_addr, a.amount.to_string(), a.denom])); }
                        if funds.is_empty() { list.push(json!([contract_addr, "exec"])); }
                    }
                    _ => {}
                }
            }
            c.insert("disp#no_zero_send".to_string(), !zero);
            c.insert("disp#exact_messages".to_string(), sent_b == bal_b && sent_s == bal_s);
            let kb = (Uint128::new(bal_b) * Decimal::new(Uint128::new(rate))).u128(); let ks = (Uint128::new(bal_s) * Decimal::new(Uint128::new(rate))).u128();
            c.insert("disp#zero_send_only_at_known_sites".to_string(), !zero || (bal_b != 0 && (kb == 0 || kb == bal_b)) || (bal_s != 0 && ks == 0));
            obs = json!({"messages": list});
        }
        (c, obs)
    }
}

pub struct SwapInfo;
impl Driver for SwapInfo {
    fn gen(&self, rng: &mut Rng, _i: u64) -> Value {
        let price = match rng.next() % 4 { 0 => E18, 1 => 1_000_000 + rng.below(E18), 2 => E18 + rng.below(1_000_000 * E18), _ => 1_000_000 * E18 / (1 + rng.below(1_000_000_000_000)) };
        json!({"st": (rng.amount(E18)).to_string(), "b": (1 + rng.amount(E18 - 1)).to_string(), "avail_st": rng.amount(E18).to_string(), "avail_b": rng.amount(E18).to_string(), "price": price.max(1_000_000).to_string()})
    }
    fn run(&self, input: &Value) -> Outcome {
        let deps = cosmwasm_std::testing::mock_dependencies();
        let (st, b, ast, ab, p) = (u(&input["st"]), u(&input["b"]), u(&input["avail_st"]), u(&input["avail_b"]), u(&input["price"]));
        let price = Decimal::new(Uint128::new(p));
        let inv = price.inv().unwrap();
        let res = verif_get_swap_info(config(&deps.api, 0), Uint128::new(st), Uint128::new(b), Uint128::new(ast), Uint128::new(ab), inv, price);
        let mut c = BTreeMap::new();
        c.insert("gsi#always_ok".to_string(), res.is_ok());
        let mut obs = json!({});
        if let Ok((offer, ask)) = res {
            let held = if offer.denom == "usei" { ast } else { ab };
            c.insert("gsi#never_offers_more_than_held".to_string(), offer.amount.u128() <= held && ask != offer.denom);
            let total = ast + (Uint128::new(ab) * inv).u128();
            let share = Uint128::new(total).multiply_ratio(st, st + b).u128();
            let ok = if ast > share { offer.denom == "usei" && ast - offer.amount.u128() == share } else { offer.denom == "uusd" && offer.amount.u128() == (Uint128::new(share - ast) * price).u128() };
            c.insert("gsi#leaves_stsei_share".to_string(), ok);
            obs = json!({"offer": [offer.amount.to_string(), offer.denom], "ask": ask, "share": share.to_string()});
        }
        (c, obs)
    }
}

/// cw20-legacy instantiate: sum of the balances of all listed accounts vs. reported total supply
pub struct Cw20Instantiate;
impl Driver for Cw20Instantiate {
    fn gen(&self, rng: &mut Rng, _i: u64) -> Value {
        let n = rng.next() % 5;
        // the same account may be spelled in two ways (an address canonicalises case-insensitively)
        let accts: Vec<Value> = (0..n).map(|_| { let a = format!("addr{}", rng.next() % 4); json!([if rng.next() % 4 == 0 { a.to_uppercase() } else { a }, rng.amount(1000).to_string()]) }).collect();
        json!({"accounts": accts})
    }
    fn run(&self, input: &Value) -> Outcome {
        use cw20_legacy::contract::{instantiate, query_balance, query_token_info};
        use cw20_legacy::msg::InstantiateMsg;
        let mut deps = cosmwasm_std::testing::mock_dependencies();
        let accts: Vec<cw20::Cw20Coin> = input["accounts"].as_array().unwrap().iter().map(|a| cw20::Cw20Coin { address: a[0].as_str().unwrap().to_string(), amount: Uint128::new(u(&a[1])) }).collect();
        let msg = InstantiateMsg { name: "Token".into(), symbol: "TKN".into(), decimals: 6, initial_balances: accts.clone(), mint: None };
        let res = instantiate(deps.as_mut(), mock_env(), mock_info("creator", &[]), msg);
        let mut c = BTreeMap::new();
        let mut obs = json!({"err": res.as_ref().err().map(|e| e.to_string())});
        if res.is_ok() {
            let mut names: Vec<String> = accts.iter().map(|a| a.address.to_lowercase()).collect();
            names.sort(); names.dedup();
            let sum: u128 = names.iter().map(|n| query_balance(deps.as_ref(), n.clone()).unwrap().balance.u128()).sum();
            let total = query_token_info(deps.as_ref()).unwrap().total_supply.u128();
            c.insert("ca#supply_equals_sum_of_balances".to_string(), sum == total);
            obs = json!({"sum_of_balances": sum.to_string(), "total_supply": total.to_string()});
        }
        (c, obs)
    }
}

/// A3: the shim's arithmetic contracts against the real libraries (cosmwasm-std Uint128/Decimal, packages/bignumber),
/// with an independent reference computed in cosmwasm_std::Uint512
pub struct ShimArith;
impl Driver for ShimArith {
    fn gen(&self, rng: &mut Rng, _i: u64) -> Value {
        let big = |rng: &mut Rng| -> u128 { match rng.next() % 4 { 0 => rng.amount(E18), 1 => rng.below(1u128 << 100), 2 => rng.below(u128::MAX), _ => rng.below(1000) } };
        json!({"a": big(rng).to_string(), "b": (1 + big(rng) % (u128::MAX - 1)).to_string(), "d": big(rng).to_string()})
    }
    fn run(&self, input: &Value) -> Outcome {
        use cosmwasm_std::{Uint512, Uint256 as CU256};
        use cosmwasm_bignumber::{Decimal256, Uint256};
        use std::str::FromStr;
        let (a, b, d) = (u(&input["a"]), u(&input["b"]), u(&input["d"]));
        let e18 = Uint512::from(E18);
        let w = |x: u128| Uint512::from(x);
        let fits = |x: Uint512| x <= Uint512::from(u128::MAX);
        let mut c = BTreeMap::new();
        // Uint128 * Decimal = floor(a*d/1e18)
        let mf = w(a) * w(d) / e18;
        if fits(mf) { c.insert("shim#uint128_mul_decimal".to_string(), Uint512::from((Uint128::new(a) * Decimal::new(Uint128::new(d))).u128()) == mf); }
        // Decimal::from_ratio(a,b) = floor(a*1e18/b)
        let rf = w(a) * e18 / w(b);
        if fits(rf) { c.insert("shim#decimal_from_ratio".to_string(), Uint512::from(Decimal::from_ratio(a, b).atomics().u128()) == rf); }
        // multiply_ratio
        let mr = w(a) * w(d) / w(b);
        if fits(mr) { c.insert("shim#multiply_ratio".to_string(), Uint512::from(Uint128::new(a).multiply_ratio(d, b).u128()) == mr); }
        // Decimal::inv = floor(1e36/d)
        if d != 0 { let iv = e18 * e18 / w(d); if fits(iv) { c.insert("shim#decimal_inv".to_string(), Uint512::from(Decimal::new(Uint128::new(d)).inv().unwrap().atomics().u128()) == iv); } }
        // Decimal * Decimal
        let dd = w(a) * w(d) / e18;
        if fits(dd) { c.insert("shim#decimal_mul_decimal".to_string(), Uint512::from((Decimal::new(Uint128::new(a)) * Decimal::new(Uint128::new(d))).atomics().u128()) == dd); }
        // bignumber: Decimal -> Decimal256 is value preserving; Uint256 * Decimal256 = floor(a*d/1e18); from_ratio; sub/add
        let d256 = Decimal256::from(Decimal::new(Uint128::new(d)));
        c.insert("shim#decimal_to_256_value_preserving".to_string(), d256.to_string() == Decimal::new(Uint128::new(d)).to_string());
        let p = Uint256::from(a) * d256;
        c.insert("shim#uint256_mul_decimal256".to_string(), CU256::from_str(&p.to_string()).map(|x| Uint512::from(x) == mf).unwrap_or(false));
        let r256 = Decimal256::from_ratio(Uint256::from(a).0, Uint256::from(b).0);
        // r256.0 is atomics as bigint U256
        c.insert("shim#decimal256_from_ratio".to_string(), CU256::from_str(&r256.0.to_string()).map(|x| Uint512::from(x) == rf).unwrap_or(false));
        if fits(mf) { let back: u128 = p.into(); c.insert("shim#uint256_to_u128".to_string(), Uint512::from(back) == mf); }
        let s = Decimal256::from(Decimal::new(Uint128::new(a))) + d256;
        c.insert("shim#decimal256_add".to_string(), CU256::from_str(&s.0.to_string()).map(|x| Uint512::from(x) == w(a) + w(d)).unwrap_or(false));
        (c, json!({}))
    }
}
