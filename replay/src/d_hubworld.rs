//! A small chain "world" around the real hub contract: token supplies, delegations, registry answer and
//! bank balance are served by a querier; the handlers that run are the real ones from /repo.
use crate::{Driver, Outcome, Rng};
use basset::hub::{Config, CurrentBatch, Cw20HookMsg, ExecuteMsg, Parameters, State};
use basset_sei_hub::contract::execute;
use basset_sei_hub::state::{CONFIG, CURRENT_BATCH, PARAMETERS, STATE};
use basset_sei_validators_registry::registry::ValidatorResponse;
use cosmwasm_std::testing::{mock_env, mock_info, MockApi, MockStorage};
use cosmwasm_std::{
    coins, from_json, to_json_binary, AllDelegationsResponse, Api, BalanceResponse, BankQuery, Coin, ContractResult, CosmosMsg, Decimal, Delegation,
    Empty, OwnedDeps, Querier, QuerierResult, QueryRequest, Response, StakingMsg, StakingQuery, SystemError, SystemResult, Uint128, WasmMsg, WasmQuery, Addr,
};
use cw20::{Cw20ExecuteMsg, Cw20ReceiveMsg, TokenInfoResponse};
use serde_json::{json, Value};
use std::collections::BTreeMap;
use std::marker::PhantomData;

pub const DENOM: &str = "usei";
pub const E18: u128 = 1_000_000_000_000_000_000;

pub struct World { pub supply_b: u128, pub supply_s: u128, pub delegations: Vec<(String, u128)>, pub balance: u128, pub unregistered: Option<usize> }
impl Querier for World {
    fn raw_query(&self, bin: &[u8]) -> QuerierResult {
        let req: QueryRequest<Empty> = match from_json(bin) { Ok(r) => r, Err(e) => return SystemResult::Err(SystemError::InvalidRequest { error: e.to_string(), request: bin.into() }) };
        match req {
            QueryRequest::Bank(BankQuery::Balance { denom, .. }) => {
                let amount = if denom == DENOM { self.balance } else { 0 };
                SystemResult::Ok(ContractResult::Ok(to_json_binary(&BalanceResponse { amount: Coin { denom, amount: Uint128::new(amount) } }).unwrap()))
            }
            QueryRequest::Staking(StakingQuery::AllDelegations { delegator }) => {
                let ds: Vec<Delegation> = self.delegations.iter().filter(|d| d.1 > 0 || true).map(|d| Delegation { delegator: Addr::unchecked(delegator.clone()), validator: d.0.clone(), amount: Coin { denom: DENOM.to_string(), amount: Uint128::new(d.1) } }).collect();
                SystemResult::Ok(ContractResult::Ok(to_json_binary(&AllDelegationsResponse { delegations: ds }).unwrap()))
            }
            QueryRequest::Wasm(WasmQuery::Smart { contract_addr, .. }) => {
                if contract_addr == "bsei_token" || contract_addr == "stsei_token" {
                    let s = if contract_addr == "bsei_token" { self.supply_b } else { self.supply_s };
                    SystemResult::Ok(ContractResult::Ok(to_json_binary(&TokenInfoResponse { name: "t".into(), symbol: "T".into(), decimals: 6, total_supply: Uint128::new(s) }).unwrap()))
                } else if contract_addr == "registry" {
                    // the registry may no longer list a validator the hub still has stake on (removed while a redelegation was in flight)
                    let vs: Vec<ValidatorResponse> = self.delegations.iter().enumerate().filter(|(k, _)| Some(*k) != self.unregistered).map(|(_, d)| ValidatorResponse { address: d.0.clone(), total_delegated: Uint128::new(d.1) }).collect();
                    SystemResult::Ok(ContractResult::Ok(to_json_binary(&vs).unwrap()))
                } else { SystemResult::Err(SystemError::NoSuchContract { addr: contract_addr }) }
            }
            _ => SystemResult::Err(SystemError::UnsupportedRequest { kind: "world".into() }),
        }
    }
}
pub fn uer(b: u128, c: u128) -> u128 { if b == 0 || c == 0 { E18 } else { Decimal::from_ratio(b, c).atomics().u128() } }
fn u(v: &Value) -> u128 { v.as_str().map(|s| s.parse().unwrap()).unwrap_or_else(|| v.as_u64().unwrap_or(0) as u128) }
pub fn mulf(a: u128, d: u128) -> u128 { (Uint128::new(a) * Decimal::new(Uint128::new(d))).u128() }

pub struct HubOp;
pub struct Snapshot { pub st: State, pub cb: CurrentBatch }

pub fn setup(input: &Value) -> OwnedDeps<MockStorage, MockApi, World, Empty> {
    let dels: Vec<(String, u128)> = input["delegations"].as_array().unwrap().iter().enumerate().map(|(i, d)| (format!("validator{}", i), u(d))).collect();
    let w = World { supply_b: u(&input["supply_b"]), supply_s: u(&input["supply_s"]), delegations: dels, balance: u(&input["balance"]), unregistered: input["unregistered"].as_u64().map(|x| x as usize) };
    let mut deps = OwnedDeps { storage: MockStorage::default(), api: MockApi::default(), querier: w, custom_query_type: PhantomData };
    let api = MockApi::default();
    let c = |s: &str| api.addr_canonicalize(s).unwrap();
    CONFIG.save(&mut deps.storage, &Config { creator: c("owner"), update_reward_index_addr: c("updater"), reward_dispatcher_contract: Some(c("dispatcher")),
        validators_registry_contract: Some(c("registry")), bsei_token_contract: Some(c("bsei_token")), stsei_token_contract: Some(c("stsei_token")),
        airdrop_registry_contract: Some(c("airdrop")), rewards_contract: Some(c("reward")) }).unwrap();
    PARAMETERS.save(&mut deps.storage, &Parameters { epoch_period: u(&input["epoch_period"]) as u64, underlying_coin_denom: DENOM.into(), unbonding_period: 1000,
        peg_recovery_fee: Decimal::new(Uint128::new(u(&input["fee"]))), er_threshold: Decimal::new(Uint128::new(u(&input["threshold"]))), reward_denom: "uusd".into(), paused: Some(false) }).unwrap();
    let (bb, bs, qb, qs) = (u(&input["backing_b"]), u(&input["backing_s"]), u(&input["req_b"]), u(&input["req_s"]));
    STATE.save(&mut deps.storage, &State { bsei_exchange_rate: Decimal::new(Uint128::new(uer(bb, deps.querier.supply_b + qb))), stsei_exchange_rate: Decimal::new(Uint128::new(uer(bs, deps.querier.supply_s + qs))),
        total_bond_bsei_amount: Uint128::new(bb), total_bond_stsei_amount: Uint128::new(bs), last_index_modification: 0, prev_hub_balance: Uint128::new(u(&input["prev_balance"])),
        last_unbonded_time: 0, last_processed_batch: 0 }).unwrap();
    CURRENT_BATCH.save(&mut deps.storage, &CurrentBatch { id: 1, requested_bsei_with_fee: Uint128::new(qb), requested_stsei: Uint128::new(qs) }).unwrap();
    deps
}

pub fn run_op(deps: &mut OwnedDeps<MockStorage, MockApi, World, Empty>, op: &str, amount: u128, now: u64) -> Result<Response, cosmwasm_std::StdError> {
    let mut env = mock_env();
    env.block.time = cosmwasm_std::Timestamp::from_seconds(now);
    let hook = |h: Cw20HookMsg| ExecuteMsg::Receive(Cw20ReceiveMsg { sender: "alice".into(), amount: Uint128::new(amount), msg: to_json_binary(&h).unwrap() });
    let (info, msg) = match op {
        "bond" => (mock_info("alice", &coins(amount, DENOM)), ExecuteMsg::Bond {}),
        "bond_stsei" => (mock_info("alice", &coins(amount, DENOM)), ExecuteMsg::BondForStSei {}),
        "bond_rewards" => (mock_info("dispatcher", &coins(amount, DENOM)), ExecuteMsg::BondRewards {}),
        "unbond_bsei" => (mock_info("bsei_token", &[]), hook(Cw20HookMsg::Unbond {})),
        "unbond_stsei" => (mock_info("stsei_token", &[]), hook(Cw20HookMsg::Unbond {})),
        "convert_bs" => (mock_info("bsei_token", &[]), hook(Cw20HookMsg::Convert {})),
        "convert_sb" => (mock_info("stsei_token", &[]), hook(Cw20HookMsg::Convert {})),
        "check_slashing" => (mock_info("anyone", &[]), ExecuteMsg::CheckSlashing {}),
        "update_global" => (mock_info("updater", &[]), ExecuteMsg::UpdateGlobalIndex { airdrop_hooks: None }),
        "update_global_registry" => (mock_info("registry", &[]), ExecuteMsg::UpdateGlobalIndex { airdrop_hooks: None }),
        _ => panic!("op"),
    };
    execute(deps.as_mut(), env, info, msg)
}

impl Driver for HubOp {
    fn gen(&self, rng: &mut Rng, i: u64) -> Value {
        let ops = ["bond", "bond_stsei", "bond_rewards", "unbond_bsei", "unbond_stsei", "convert_bs", "convert_sb", "check_slashing", "update_global", "update_global_registry"];
        let op = ops[(rng.next() % ops.len() as u64) as usize];
        let big = i % 3 == 0;
        let cap: u128 = if big { E18 } else { 100_000 };
        let supply_b = 1 + rng.amount(cap); let supply_s = 1 + rng.amount(cap);
        let qb = rng.amount(cap / 4); let qs = rng.amount(cap / 4);
        // backing relative to claims: at peg, slashed a little, slashed a lot, or above peg
        let rel = |rng: &mut Rng, claims: u128| -> u128 { match rng.next() % 5 { 0 => claims, 1 => claims - rng.below(claims / 50 + 1), 2 => claims - rng.below(claims / 2 + 1), 3 => claims + rng.below(claims / 20 + 1), _ => claims.saturating_sub(rng.below(3)) } };
        let bb = rel(rng, supply_b + qb).max(1); let bs = rel(rng, supply_s + qs).max(1);
        let total = bb + bs;
        let delegated = match rng.next() % 3 { 0 => total, 1 => total - rng.below(total / 10 + 1), _ => total + rng.below(10) };
        let n = 1 + rng.next() % 3;
        let mut ds = vec![]; let mut rest = delegated;
        for k in 0..n { let x = if k == n - 1 { rest } else { rng.below(rest + 1) }; rest -= x; ds.push(x.to_string()); }
        let amount = match op { "unbond_bsei" | "convert_bs" => 1 + rng.below(supply_b), "unbond_stsei" | "convert_sb" => 1 + rng.below(supply_s), _ => 1 + rng.amount(cap) };
        let fee = match rng.next() % 4 { 0 => 0, 1 => E18 / 20, 2 => E18 / 1000, _ => rng.below(E18 + 1) };
        let thr = match rng.next() % 3 { 0 => E18, 1 => E18 - rng.below(E18 / 10), _ => rng.below(E18 + 1) };
        json!({"op": op, "amount": amount.to_string(), "supply_b": supply_b.to_string(), "supply_s": supply_s.to_string(), "req_b": qb.to_string(), "req_s": qs.to_string(),
               "backing_b": bb.to_string(), "backing_s": bs.to_string(), "delegations": ds, "balance": "0", "prev_balance": "0", "fee": fee.to_string(), "threshold": thr.to_string(),
               "epoch_period": if rng.next() % 2 == 0 { "30" } else { "100000" }, "now": "5000",
               "unregistered": if (op.starts_with("update_global") || op.starts_with("unbond")) && n > 1 && rng.next() % 3 == 0 { json!(rng.next() % n) } else { Value::Null }})
    }
    fn run(&self, input: &Value) -> Outcome {
        let mut deps = setup(input);
        let op = input["op"].as_str().unwrap();
        let amount = u(&input["amount"]);
        let now = u(&input["now"]) as u64;
        let st0: State = STATE.load(&deps.storage).unwrap();
        let cb0: CurrentBatch = CURRENT_BATCH.load(&deps.storage).unwrap();
        let fee_rate = u(&input["fee"]); let thr = u(&input["threshold"]);
        let (sb, ss) = (deps.querier.supply_b, deps.querier.supply_s);
        let delegated: u128 = deps.querier.delegations.iter().map(|d| d.1).sum();
        // books after the implicit slashing check (what the handler prices with)
        let (bb0, bs0) = (st0.total_bond_bsei_amount.u128(), st0.total_bond_stsei_amount.u128());
        let (ab, as_) = if bb0 + bs0 > delegated && bb0 + bs0 > 0 { let nb = mulf(delegated, Decimal::from_ratio(bb0, bb0 + bs0).atomics().u128()); (nb, delegated - nb) } else { (bb0, bs0) };
        let (qb, qs) = (cb0.requested_bsei_with_fee.u128(), cb0.requested_stsei.u128());
        let rb = uer(ab, sb + qb); let rs = uer(as_, ss + qs);
        let res = run_op(&mut deps, op, amount, now);
        let mut c = BTreeMap::new();
        let mut obs = json!({"err": res.as_ref().err().map(|e| e.to_string())});
        // C09: with both pools backed, the books covered by the delegations and a positive amount within the supply, an unbond is accepted --
        // also while the registry no longer lists a validator the hub still has stake on
        if (op == "unbond_bsei" || op == "unbond_stsei") && bb0 > 0 && bs0 > 0 && delegated >= bb0 + bs0 && deps.querier.delegations.iter().all(|d| d.1 > 0) {
            c.insert("unbond#C09.accepted_when_backed".to_string(), res.is_ok());
        }
        if let Ok(resp) = res {
            let st1: State = STATE.load(&deps.storage).unwrap();
            let cb1: CurrentBatch = CURRENT_BATCH.load(&deps.storage).unwrap();
            let (b1, s1) = (st1.total_bond_bsei_amount.u128(), st1.total_bond_stsei_amount.u128());
            let mut minted: Option<u128> = None; let mut burned: Option<u128> = None;
            let mut delegated_now: u128 = 0; let mut undelegated_now: u128 = 0; let mut bank = 0u128;
            for m in resp.messages.iter() {
                match &m.msg {
                    CosmosMsg::Staking(StakingMsg::Delegate { amount, .. }) => delegated_now += amount.amount.u128(),
                    CosmosMsg::Staking(StakingMsg::Undelegate { amount, .. }) => undelegated_now += amount.amount.u128(),
                    CosmosMsg::Bank(_) => bank += 1,
                    CosmosMsg::Wasm(WasmMsg::Execute { msg, .. }) => { match from_json::<Cw20ExecuteMsg>(msg) { Ok(Cw20ExecuteMsg::Mint { amount, .. }) => minted = Some(amount.u128()), Ok(Cw20ExecuteMsg::Burn { amount }) => burned = Some(amount.u128()), _ => {} } }
                    _ => {}
                }
            }
            let undelegating = undelegated_now > 0 || cb1.id != cb0.id;
            // C02: books never exceed what is delegated after the messages run
            let deleg_after = delegated + delegated_now - undelegated_now;
            // (stated for the pricing operations; an index update prices nothing and runs no slashing check)
            if !op.starts_with("update_global") { c.insert("C02.books_le_delegated".to_string(), b1 + s1 <= deleg_after); }
            c.insert("C02.no_bank_message".to_string(), bank == 0);
            match op {
                "bond" | "bond_stsei" | "bond_rewards" => {
                    c.insert("bond#C02.delegates_whole_payment".to_string(), delegated_now == amount);
                    c.insert("bond#C02.books".to_string(), b1 + s1 == ab + as_ + amount);
                }
                _ => {}
            }
            // C05 on the four fee paths: gate, cap, no overshoot
            let m0_b = if rb > 0 { Uint128::new(amount).multiply_ratio(E18, rb).u128() } else { 0 };
            match op {
                "bond" => {
                    let mint = minted.unwrap_or(0);
                    c.insert("bond#C03.mint_not_above_no_fee".to_string(), mint <= m0_b);
                    c.insert("bond#C05.fee_gate_and_cap".to_string(), mint <= m0_b && (rb < thr || mint == m0_b) && m0_b - mint.min(m0_b) <= mulf(m0_b, fee_rate));
                    c.insert("bond#C05.no_overshoot".to_string(), !(rb < E18) || ab + amount <= sb + mint + qb + 2);
                    c.insert("bond#C04.no_dilution".to_string(), !(ab > 0 && sb + qb > 0) || uer(ab + amount, sb + mint + qb) >= rb);
                }
                "unbond_bsei" if !undelegating => {
                    let awf = cb1.requested_bsei_with_fee.u128() - qb; let fee = amount - awf.min(amount);
                    c.insert("unbond#C05.fee_gate_cap_no_overshoot".to_string(), awf <= amount && (rb < thr || fee == 0) && fee <= mulf(amount, fee_rate) && (!(rb < E18) || ab + fee <= sb + qb + 2));
                    c.insert("unbond#C07.burns_exactly_what_was_sent".to_string(), burned == Some(amount));
                    c.insert("unbond#C04.no_dilution".to_string(), uer(b1, sb - amount + cb1.requested_bsei_with_fee.u128()) >= rb);
                }
                "convert_sb" => {
                    let v = mulf(amount, rs); let m0 = if rb > 0 { Uint128::new(v).multiply_ratio(E18, rb).u128() } else { 0 };
                    let mint = minted.unwrap_or(0);
                    c.insert("conv_sb#C05.fee_gate_cap_no_overshoot".to_string(), mint <= m0 && (rb < thr || mint == m0) && m0 - mint.min(m0) <= mulf(m0, fee_rate) && (!(rb < E18) || ab + v <= sb + mint + qb + 2));
                    c.insert("conv_sb#C02.books_conserved".to_string(), b1 + s1 == ab + as_);
                    // C03: the coin value floor(tokens x stSei rate) is re-priced at the bSei rate; rounding favours the pool; nothing for a zero value
                    c.insert("conv_sb#C03.reprices_value".to_string(), mint <= m0 && (rb < thr || mint == m0) && (v > 0 || mint == 0));
                }
                "convert_bs" => {
                    c.insert("conv_bs#C05.no_overshoot".to_string(), !(rb < E18) || b1 <= (sb - amount) + qb + 2);
                    c.insert("conv_bs#C02.books_conserved".to_string(), b1 + s1 == ab + as_);
                    { let v = mulf(amount, rb); let m0 = if rs > 0 { Uint128::new(v).multiply_ratio(E18, rs).u128() } else { 0 };
                      c.insert("conv_bs#C03.reprices_value".to_string(), minted.unwrap_or(0) <= m0 && (rb < thr || minted.unwrap_or(0) == m0) && (v > 0 || minted.unwrap_or(0) == 0)); }
                    c.insert("conv_bs#C04.no_dilution_stsei".to_string(), uer(s1, ss + minted.unwrap_or(0) + qs) + 0 >= rs || rs == E18 && as_ == 0);
                }
                "check_slashing" => {
                    c.insert("cs#books_set_to_actual".to_string(), b1 == ab && s1 == as_);
                }
                "update_global" | "update_global_registry" => {
                    // C19: rewards are withdrawn from every validator the hub delegates to, then swap, then dispatch, in that order
                    let mut want: Vec<String> = deps.querier.delegations.iter().map(|d| format!("withdraw:{}", d.0)).collect();
                    want.push("swap".into()); want.push("dispatch".into());
                    let got: Vec<String> = resp.messages.iter().map(|m| match &m.msg {
                        CosmosMsg::Distribution(cosmwasm_std::DistributionMsg::WithdrawDelegatorReward { validator }) => format!("withdraw:{}", validator),
                        CosmosMsg::Wasm(WasmMsg::Execute { contract_addr, msg, .. }) if contract_addr == "dispatcher" => {
                            let t = String::from_utf8_lossy(msg.as_slice()).to_string();
                            if t.contains("swap_to_reward_denom") { "swap".into() } else if t.contains("dispatch_rewards") { "dispatch".into() } else { format!("other:{}", t) }
                        }
                        _ => "other".into() }).collect();
                    c.insert("ugl#withdraw_swap_dispatch_in_order".to_string(), got == want);
                    c.insert("ugl#books_untouched".to_string(), b1 == bb0 && s1 == bs0);
                }
                _ => {}
            }
            if undelegating {
                c.insert("pu#books_reduced_by_undelegated".to_string(), b1 + s1 + undelegated_now == ab + as_);
            }
            obs = json!({"rate_b_before": rb.to_string(), "rate_s_before": rs.to_string(), "books_before": [ab.to_string(), as_.to_string()], "books_after": [b1.to_string(), s1.to_string()],
                         "rate_b_after": st1.bsei_exchange_rate.atomics().to_string(), "rate_s_after": st1.stsei_exchange_rate.atomics().to_string(),
                         "minted": minted.map(|m| m.to_string()), "burned": burned.map(|m| m.to_string()), "delegated_msgs": delegated_now.to_string(), "undelegated_msgs": undelegated_now.to_string(),
                         "claims_b_after": (sb + minted.filter(|_| op == "bond" || op == "convert_sb").unwrap_or(0) - burned.filter(|_| op == "unbond_bsei" || op == "convert_bs").unwrap_or(0) + cb1.requested_bsei_with_fee.u128()).to_string()});
        }
        (c, obs)
    }
}
