//! Drivers around the real registry `remove_validator` and the real dispatcher `execute_swap`.
use crate::{Driver, Outcome, Rng};
use basset_sei_validators_registry::contract::{instantiate as reg_instantiate, remove_validator};
use basset_sei_validators_registry::msg::InstantiateMsg as RegInit;
use basset_sei_validators_registry::registry::Validator;
use cosmwasm_std::testing::{mock_env, mock_info, MockApi, MockQuerier, MockStorage, MOCK_CONTRACT_ADDR};
use cosmwasm_std::{from_json, to_json_binary, Addr, AllBalanceResponse, BankQuery, Coin, ContractResult, CosmosMsg, Decimal, Empty, FullDelegation, OwnedDeps, Querier, QuerierResult,
    QueryRequest, SystemError, SystemResult, Uint128, Validator as SdkValidator, WasmMsg, WasmQuery};
use serde_json::{json, Value};
use std::collections::BTreeMap;
use std::marker::PhantomData;

fn u(v: &Value) -> u128 { v.as_str().unwrap().parse().unwrap() }
const E18: u128 = 1_000_000_000_000_000_000;

/// registry: remove one validator; the hub's delegations are given per validator
pub struct RegistryRemove;
impl Driver for RegistryRemove {
    fn gen(&self, rng: &mut Rng, _i: u64) -> Value {
        let n = 1 + rng.next() % 5;
        let ds: Vec<String> = (0..n).map(|_| rng.amount(1_000_000).to_string()).collect();
        let can = match rng.next() % 3 { 0 => "full", 1 => "none", _ => "partial" };
        json!({"delegations": ds, "remove": (rng.next() % n).to_string(), "can_redelegate": can, "upper": rng.next() % 4 == 0})
    }
    fn run(&self, input: &Value) -> Outcome {
        let ds: Vec<u128> = input["delegations"].as_array().unwrap().iter().map(u).collect();
        let rm = u(&input["remove"]) as usize;
        let can = input["can_redelegate"].as_str().unwrap();
        let upper = input["upper"].as_bool().unwrap_or(false);
        let names: Vec<String> = (0..ds.len()).map(|i| if upper { format!("VALIDATOR{}", i) } else { format!("validator{}", i) }).collect();
        let mut q: MockQuerier<Empty> = MockQuerier::new(&[(MOCK_CONTRACT_ADDR, &[])]);
        let vals: Vec<SdkValidator> = names.iter().map(|n| SdkValidator { address: n.clone(), commission: Decimal::zero(), max_commission: Decimal::one(), max_change_rate: Decimal::one() }).collect();
        let fds: Vec<FullDelegation> = names.iter().zip(ds.iter()).filter(|(_, d)| **d > 0).enumerate().map(|(_, (n, d))| {
            let is_rm = *n == names[rm];
            let cr = if !is_rm || can == "full" { *d } else if can == "none" { 0 } else { *d / 2 };
            FullDelegation { delegator: Addr::unchecked("hub"), validator: n.clone(), amount: Coin::new(*d, "usei"), can_redelegate: Coin::new(cr, "usei"), accumulated_rewards: vec![] }
        }).collect();
        q.update_staking("usei", &vals, &fds);
        let mut deps = OwnedDeps { storage: MockStorage::default(), api: MockApi::default(), querier: q, custom_query_type: PhantomData::<Empty> };
        reg_instantiate(deps.as_mut(), mock_env(), mock_info("owner", &[]), RegInit { registry: names.iter().map(|n| Validator { address: n.clone() }).collect(), hub_contract: "hub".into() }).unwrap();
        let res = remove_validator(deps.as_mut(), mock_env(), mock_info("owner", &[]), names[rm].clone());
        let mut c = BTreeMap::new();
        let mut obs = json!({"err": res.as_ref().err().map(|e| e.to_string())});
        if ds.len() == 1 { c.insert("rv#C13.never_removes_the_last_validator".to_string(), res.is_err()); }
        if let Ok(r) = res {
            // registry content after the call
            // through the real query: the removed validator is no longer offered for delegation
            let listed = basset_sei_validators_registry::contract::query(deps.as_ref(), mock_env(), basset_sei_validators_registry::msg::QueryMsg::GetValidatorsForDelegation {})
                .ok().and_then(|b| from_json::<Vec<basset_sei_validators_registry::registry::ValidatorResponse>>(&b).ok()).map(|v| v.iter().any(|x| x.address == names[rm])).unwrap_or(true);
            let still = listed || basset_sei_validators_registry::registry::REGISTRY.has(&deps.storage, names[rm].as_bytes());
            c.insert("rv#C13.removed_and_not_last".to_string(), !still);
            let d = ds[rm];
            let full = d > 0 && (can == "full");
            let mut sum = 0u128; let mut ok_targets = true; let mut n_msgs = 0;
            for m in r.messages.iter() {
                n_msgs += 1;
                if let CosmosMsg::Wasm(WasmMsg::Execute { msg, .. }) = &m.msg {
                    if let Ok(basset::hub::ExecuteMsg::RedelegateProxy { src_validator, redelegations }) = from_json::<basset::hub::ExecuteMsg>(msg) {
                        if src_validator != names[rm] { ok_targets = false; }
                        for (dst, coin) in redelegations { sum += coin.amount.u128(); if dst == names[rm] || coin.amount.is_zero() { ok_targets = false; } }
                    }
                }
            }
            c.insert("rv#C13.redelegates_whole_stake".to_string(), if full { sum == d && ok_targets && n_msgs == 2 } else { n_msgs == 0 });
            obs = json!({"still_registered": still, "redelegated": sum.to_string(), "messages": n_msgs});
        }
        (c, obs)
    }
}

/// dispatcher: the real execute_swap with balances, swap_denoms (possibly with repeats), a simulation price and an oracle price
pub struct SwapWorld { pub balances: Vec<Coin>, pub price: Decimal }
impl Querier for SwapWorld {
    fn raw_query(&self, bin: &[u8]) -> QuerierResult {
        let req: QueryRequest<Empty> = match from_json(bin) { Ok(r) => r, Err(e) => return SystemResult::Err(SystemError::InvalidRequest { error: e.to_string(), request: bin.into() }) };
        match req {
            QueryRequest::Bank(BankQuery::AllBalances { .. }) => SystemResult::Ok(ContractResult::Ok(to_json_binary(&AllBalanceResponse { amount: self.balances.clone() }).unwrap())),
            QueryRequest::Wasm(WasmQuery::Smart { contract_addr, msg }) => {
                if contract_addr == "oracle" { SystemResult::Ok(ContractResult::Ok(to_json_binary(&self.price).unwrap())) }
                else if contract_addr == "swap" {
                    let m: basset::swap_ext::SwapQueryMsg = from_json(&msg).unwrap();
                    let amt = match m { basset::swap_ext::SwapQueryMsg::QuerySimulation { offer_asset, .. } => offer_asset.amount, _ => Uint128::zero() };
                    SystemResult::Ok(ContractResult::Ok(to_json_binary(&basset::swap_ext::SimulationResponse { return_amount: amt, spread_amount: Uint128::zero(), commission_amount: Uint128::zero() }).unwrap()))
                } else { SystemResult::Err(SystemError::NoSuchContract { addr: contract_addr }) }
            }
            _ => SystemResult::Err(SystemError::UnsupportedRequest { kind: "swapworld".into() }),
        }
    }
}
pub struct DispatcherSwap;
impl Driver for DispatcherSwap {
    fn gen(&self, rng: &mut Rng, _i: u64) -> Value {
        let mut denoms = vec!["usei".to_string(), "uusd".to_string()];
        if rng.next() % 3 == 0 { denoms.push("uatom".into()); }
        if rng.next() % 3 == 0 { let k = (rng.next() % denoms.len() as u64) as usize; let dd = denoms[k].clone(); denoms.push(dd); }   // a repeated entry (UpdateSwapDenom never de-duplicates)
        let price = match rng.next() % 3 { 0 => E18, 1 => E18 / 2, _ => 1_000_000 + rng.below(5 * E18) };
        json!({"usei": rng.amount(1_000_000).to_string(), "uusd": rng.amount(1_000_000).to_string(), "uatom": rng.amount(1000).to_string(), "swap_denoms": denoms,
               "st": rng.amount(1_000_000).to_string(), "b": (1 + rng.amount(1_000_000)).to_string(), "price": price.to_string()})
    }
    fn run(&self, input: &Value) -> Outcome {
        use basset_sei_rewards_dispatcher::contract::execute_swap;
        use basset_sei_rewards_dispatcher::state::{store_config, Config};
        use cosmwasm_std::Api;
        let held: BTreeMap<String, u128> = ["usei", "uusd", "uatom"].iter().map(|d| (d.to_string(), u(&input[*d]))).collect();
        let balances: Vec<Coin> = held.iter().filter(|(_, a)| **a > 0).map(|(d, a)| Coin::new(*a, d.clone())).collect();
        let w = SwapWorld { balances, price: Decimal::new(Uint128::new(u(&input["price"]))) };
        let mut deps = OwnedDeps { storage: MockStorage::default(), api: MockApi::default(), querier: w, custom_query_type: PhantomData::<Empty> };
        let api = MockApi::default(); let cn = |s: &str| api.addr_canonicalize(s).unwrap();
        let denoms: Vec<String> = input["swap_denoms"].as_array().unwrap().iter().map(|d| d.as_str().unwrap().to_string()).collect();
        store_config(&mut deps.storage, &Config { owner: cn("owner"), hub_contract: cn("hub"), bsei_reward_contract: cn("reward"), stsei_reward_denom: "usei".into(), bsei_reward_denom: "uusd".into(),
            krp_keeper_address: cn("keeper"), krp_keeper_rate: Decimal::zero(), swap_contract: cn("swap"), swap_denoms: denoms, oracle_contract: cn("oracle") }).unwrap();
        let res = execute_swap(deps.as_mut(), mock_env(), mock_info("hub", &[]), Uint128::new(u(&input["b"])), Uint128::new(u(&input["st"])));
        let mut c = BTreeMap::new();
        let mut obs = json!({"err": res.as_ref().err().map(|e| e.to_string())});
        if let Ok(r) = res {
            // the messages run in order: each swap offers coins the dispatcher holds at that moment; what an earlier swap returns
            // (simulated 1:1 by the swap contract of this world) is there for a later one
            let mut offered: BTreeMap<String, u128> = BTreeMap::new();
            let mut bal = held.clone();
            let mut ok = true; let mut returns = true; let mut nonzero = true;
            for m in r.messages.iter() {
                if let CosmosMsg::Wasm(WasmMsg::Execute { funds, msg, .. }) = &m.msg {
                    let mut got = 0u128;
                    // the bank module rejects a zero coin, and with it the whole UpdateGlobalIndex transaction
                    if funds.is_empty() || funds.iter().any(|f| f.amount.is_zero()) { nonzero = false; }
                    for f in funds {
                        *offered.entry(f.denom.clone()).or_insert(0) += f.amount.u128();
                        let e = bal.entry(f.denom.clone()).or_insert(0);
                        if f.amount.u128() > *e { ok = false; }
                        *e = e.saturating_sub(f.amount.u128()); got += f.amount.u128();
                    }
                    if let Ok(basset::swap_ext::SwapExecteMsg::SwapDenom { target_denom, to_address, .. }) = from_json::<basset::swap_ext::SwapExecteMsg>(msg) {
                        // proceeds come back only when no other receiver is named
                        if to_address.is_none() || to_address.as_deref() == Some(MOCK_CONTRACT_ADDR) { *bal.entry(target_denom).or_insert(0) += got; } else { returns = false; }
                    }
                }
            }
            c.insert("dswap#never_offers_more_than_held".to_string(), ok);
            c.insert("dswap#proceeds_return_to_dispatcher".to_string(), returns);
            c.insert("dswap#never_offers_zero_coins".to_string(), nonzero);
            let known: std::collections::BTreeSet<String> = input["swap_denoms"].as_array().unwrap().iter().map(|d| d.as_str().unwrap().to_string()).collect();
            // with only the two reward coins held, the rebalancing swap is exactly what the split formula (the real get_swap_info, through its hook) asks for
            let only_rewards = held.iter().all(|(d, a)| *a == 0 || d == "usei" || d == "uusd") && known.contains("usei") && known.contains("uusd");
            if only_rewards {
                use cosmwasm_std::Fraction;
                let price = Decimal::new(Uint128::new(u(&input["price"])));
                if let Some(inv) = price.inv() {
                    let cfg = basset_sei_rewards_dispatcher::state::read_config(&deps.storage).unwrap();
                    if let Ok((offer, _ask)) = basset_sei_rewards_dispatcher::contract::verif_get_swap_info(cfg, Uint128::new(u(&input["st"])), Uint128::new(u(&input["b"])),
                            Uint128::new(*held.get("usei").unwrap_or(&0)), Uint128::new(*held.get("uusd").unwrap_or(&0)), inv, price) {
                        let got = offered.get(&offer.denom).copied().unwrap_or(0);
                        let total_offered: u128 = offered.values().sum();
                        c.insert("dswap#requests_the_rebalancing_swap".to_string(), got == offer.amount.u128() && total_offered == offer.amount.u128());
                    }
                }
            }
            obs = json!({"offered": offered.iter().map(|(d, a)| json!([d, a.to_string()])).collect::<Vec<_>>()});
        }
        (c, obs)
    }
}

/// registry: one message from one sender on the real `execute` (C10: registry changes are for the owner; the hub may add)
pub struct RegistryAuth;
impl Driver for RegistryAuth {
    fn gen(&self, rng: &mut Rng, _i: u64) -> Value {
        let senders = ["owner", "hub", "nominee", "alice", "validator0"];
        let msgs = ["add", "remove", "update_config", "set_owner", "accept"];
        json!({"sender": senders[(rng.next() % 5) as usize], "msg": msgs[(rng.next() % 5) as usize], "n": 2 + rng.next() % 3})
    }
    fn run(&self, input: &Value) -> Outcome {
        use basset_sei_validators_registry::contract::execute;
        use basset_sei_validators_registry::msg::ExecuteMsg;
        use basset_sei_validators_registry::registry::{CONFIG, REGISTRY};
        let n = input["n"].as_u64().unwrap_or(2) as usize;
        let names: Vec<String> = (0..n).map(|i| format!("validator{}", i)).collect();
        let mut q: MockQuerier<Empty> = MockQuerier::new(&[(MOCK_CONTRACT_ADDR, &[])]);
        let mut vals: Vec<SdkValidator> = names.iter().map(|n| SdkValidator { address: n.clone(), commission: Decimal::zero(), max_commission: Decimal::one(), max_change_rate: Decimal::one() }).collect();
        vals.push(SdkValidator { address: "newval".into(), commission: Decimal::zero(), max_commission: Decimal::one(), max_change_rate: Decimal::one() });
        q.update_staking("usei", &vals, &[]);
        let mut deps = OwnedDeps { storage: MockStorage::default(), api: MockApi::default(), querier: q, custom_query_type: PhantomData::<Empty> };
        reg_instantiate(deps.as_mut(), mock_env(), mock_info("owner", &[]), RegInit { registry: names.iter().map(|n| Validator { address: n.clone() }).collect(), hub_contract: "hub".into() }).unwrap();
        // a pending nominee, as after SetOwner{nominee}
        let _ = execute(deps.as_mut(), mock_env(), mock_info("owner", &[]), ExecuteMsg::SetOwner { new_owner_addr: "nominee".into() });
        let sender = input["sender"].as_str().unwrap();
        let kind = input["msg"].as_str().unwrap();
        let msg = match kind {
            "add" => ExecuteMsg::AddValidator { validator: Validator { address: "newval".into() } },
            "remove" => ExecuteMsg::RemoveValidator { address: names[0].clone() },
            "update_config" => ExecuteMsg::UpdateConfig { hub_contract: Some("evilhub".into()) },
            "set_owner" => ExecuteMsg::SetOwner { new_owner_addr: "evil".into() },
            _ => ExecuteMsg::AcceptOwnership {},
        };
        let before_cfg = CONFIG.load(&deps.storage).unwrap();
        let res = execute(deps.as_mut(), mock_env(), mock_info(sender, &[]), msg);
        let allowed: Vec<&str> = match kind { "add" => vec!["owner", "hub"], "accept" => vec!["nominee"], _ => vec!["owner"] };
        let mut c = BTreeMap::new();
        if !allowed.contains(&sender) { c.insert(format!("ra#C10.{}_rejected_for_other_senders", kind), res.is_err()); }
        else {
            c.insert(format!("ra#C10.{}_accepted_for_its_principal", kind), res.is_ok());
            if res.is_ok() {
                let cfg = CONFIG.load(&deps.storage).unwrap();
                match kind {
                    "add" => { c.insert("ra#add_registers_the_validator".to_string(), REGISTRY.has(&deps.storage, "newval".as_bytes())); }
                    "remove" => { c.insert("ra#remove_unregisters_the_validator".to_string(), !REGISTRY.has(&deps.storage, names[0].as_bytes())); }
                    "accept" => { c.insert("ra#C10.nominee_becomes_owner".to_string(), cfg.owner == cosmwasm_std::Api::addr_canonicalize(&deps.api, "nominee").unwrap()); }
                    "update_config" => { c.insert("ra#update_config_sets_hub".to_string(), cfg.hub_contract == cosmwasm_std::Api::addr_canonicalize(&deps.api, "evilhub").unwrap() && cfg.owner == before_cfg.owner); }
                    _ => {}
                }
            }
        }
        (c, json!({"accepted": res.is_ok(), "err": res.err().map(|e| e.to_string())}))
    }
}
