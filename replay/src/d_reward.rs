//! A small world around the real bSei reward contract: holders' balances are mirrored by the (simulated) bSei token,
//! reward coins arrive in the contract's bank balance, the dispatcher triggers index updates, holders claim (C14, C15, C16).
use crate::{Driver, Outcome, Rng};
use basset::reward::{ExecuteMsg, InstantiateMsg};
use basset_sei_reward::contract::{execute, instantiate};
use basset_sei_reward::state::{read_holder, read_state};
use cosmwasm_std::testing::{mock_env, mock_info, MockApi, MockStorage};
use cosmwasm_std::{AllBalanceResponse, WasmMsg, from_json, to_json_binary, Api, BalanceResponse, BankMsg, BankQuery, Coin, ContractResult, CosmosMsg, Empty, OwnedDeps, Querier, QuerierResult, QueryRequest,
    SystemError, SystemResult, Uint128, Uint256, WasmQuery};
use serde_json::{json, Value};
use std::collections::BTreeMap;
use std::marker::PhantomData;

const DENOM: &str = "uusd";
const E18: u128 = 1_000_000_000_000_000_000;
pub struct RWorld { pub bank: u128 }
impl Querier for RWorld {
    fn raw_query(&self, bin: &[u8]) -> QuerierResult {
        let req: QueryRequest<Empty> = match from_json(bin) { Ok(r) => r, Err(e) => return SystemResult::Err(SystemError::InvalidRequest { error: e.to_string(), request: bin.into() }) };
        match req {
            QueryRequest::Bank(BankQuery::Balance { denom, .. }) => {
                let amount = if denom == DENOM { self.bank } else { 0 };
                SystemResult::Ok(ContractResult::Ok(to_json_binary(&BalanceResponse { amount: Coin { denom, amount: Uint128::new(amount) } }).unwrap()))
            }
            QueryRequest::Bank(BankQuery::AllBalances { .. }) => {
                let coins = if self.bank > 0 { vec![Coin { denom: DENOM.to_string(), amount: Uint128::new(self.bank) }] } else { vec![] };
                SystemResult::Ok(ContractResult::Ok(to_json_binary(&AllBalanceResponse { amount: coins }).unwrap()))
            }
            QueryRequest::Wasm(WasmQuery::Smart { contract_addr, .. }) if contract_addr == "hub" => {
                let c = basset::hub::ConfigResponse { owner: "owner".into(), update_reward_index_addr: "updater".into(), reward_dispatcher_contract: Some("dispatcher".into()),
                    validators_registry_contract: Some("registry".into()), bsei_token_contract: Some("bsei_token".into()), stsei_token_contract: Some("stsei_token".into()),
                    airdrop_registry_contract: Some("airdrop".into()), token_contract: Some("bsei_token".into()) };
                SystemResult::Ok(ContractResult::Ok(to_json_binary(&c).unwrap()))
            }
            _ => SystemResult::Err(SystemError::UnsupportedRequest { kind: "rworld".into() }),
        }
    }
}
fn u(v: &Value) -> u128 { v.as_str().map(|s| s.parse().unwrap()).unwrap_or_else(|| v.as_u64().unwrap_or(0) as u128) }

pub struct RewardWorld;
impl Driver for RewardWorld {
    fn gen(&self, rng: &mut Rng, i: u64) -> Value {
        let holders = 1 + rng.next() % 4;
        let n = 3 + rng.next() % 12;
        let cap: u128 = if i % 3 == 0 { 1_000_000_000 } else { 1000 };
        let mut ops = vec![];
        for _ in 0..n {
            let who = rng.next() % holders; let other = rng.next() % holders;
            ops.push(match rng.next() % 11 {
                9 => json!({"op": "reconfig", "same_denom": rng.next() % 2 == 0}),
                10 => json!({"op": "swap"}),
                0 | 1 => json!({"op": "inc", "who": who, "amt": (1 + rng.amount(cap)).to_string()}),
                2 => json!({"op": "dec", "who": who, "frac": rng.next() % 5}),
                3 | 4 => json!({"op": "deliver", "amt": rng.amount(cap).to_string()}),
                5 => json!({"op": "update"}),
                6 => json!({"op": "claim", "who": who}),
                _ => json!({"op": "transfer", "who": who, "to": other, "frac": rng.next() % 5}),
            });
        }
        json!({"holders": holders, "ops": ops})
    }
    fn run(&self, input: &Value) -> Outcome {
        let hn = input["holders"].as_u64().unwrap_or(1) as usize;
        let names: Vec<String> = (0..hn).map(|k| format!("holder{}", k)).collect();
        let mut deps = OwnedDeps { storage: MockStorage::default(), api: MockApi::default(), querier: RWorld { bank: 0 }, custom_query_type: PhantomData::<Empty> };
        instantiate(deps.as_mut(), mock_env(), mock_info("owner", &[]), InstantiateMsg { hub_contract: "hub".into(), reward_denom: DENOM.into(), swap_contract: "swap".into(), swap_denoms: vec![] }).unwrap();
        let mut tok = vec![0u128; hn];                 // the bSei token's balances (what the mirror must equal)
        let mut ideal = vec![Uint256::zero(); hn];     // exact pro-rata entitlement, in 1e-18 units, of everything delivered so far
        let mut claimed = vec![0u128; hn];
        let mut recorded: u128 = 0;                    // what the driver expects prev_reward_balance to be
        let (mut updates, mut steps) = (0u128, 0u128);
        let mut c: BTreeMap<String, bool> = BTreeMap::new();
        let mut trace = vec![];
        let and = |c: &mut BTreeMap<String, bool>, k: &str, v: bool| { let e = c.entry(k.to_string()).or_insert(true); *e = *e && v; };
        let tokm = |deps: &mut OwnedDeps<MockStorage, MockApi, RWorld, Empty>, m: ExecuteMsg| execute(deps.as_mut(), mock_env(), mock_info("bsei_token", &[]), m);
        for op in input["ops"].as_array().unwrap() {
            steps += 1;
            let kind = op["op"].as_str().unwrap();
            let who = op["who"].as_u64().unwrap_or(0) as usize % hn;
            match kind {
                "inc" => { let a = u(&op["amt"]); let r = tokm(&mut deps, ExecuteMsg::IncreaseBalance { address: names[who].clone(), amount: Uint128::new(a) }); and(&mut c, "rw#mirror_ops_accepted", r.is_ok()); if r.is_ok() { tok[who] += a; } }
                "dec" => { let a = tok[who] * (op["frac"].as_u64().unwrap_or(0) as u128) / 4; if a > 0 { let r = tokm(&mut deps, ExecuteMsg::DecreaseBalance { address: names[who].clone(), amount: Uint128::new(a) }); and(&mut c, "rw#mirror_ops_accepted", r.is_ok()); if r.is_ok() { tok[who] -= a; } } }
                "transfer" => {
                    let to = op["to"].as_u64().unwrap_or(0) as usize % hn; let a = tok[who] * (op["frac"].as_u64().unwrap_or(0) as u128) / 4;
                    if a > 0 && to != who {
                        let r1 = tokm(&mut deps, ExecuteMsg::DecreaseBalance { address: names[who].clone(), amount: Uint128::new(a) });
                        let r2 = tokm(&mut deps, ExecuteMsg::IncreaseBalance { address: names[to].clone(), amount: Uint128::new(a) });
                        and(&mut c, "rw#mirror_ops_accepted", r1.is_ok() && r2.is_ok());
                        if r1.is_ok() { tok[who] -= a; } if r2.is_ok() { tok[to] += a; }
                    }
                }
                "deliver" | "update" => {
                    if kind == "deliver" { deps.querier.bank += u(&op["amt"]); }
                    let total: u128 = tok.iter().sum();
                    let r = execute(deps.as_mut(), mock_env(), mock_info("dispatcher", &[]), ExecuteMsg::UpdateGlobalIndex {});
                    and(&mut c, "rw#C19.index_update_executes", r.is_ok());
                    if r.is_ok() && total > 0 {
                        let delivered = deps.querier.bank - recorded;
                        for h in 0..hn { ideal[h] += Uint256::from(delivered) * Uint256::from(tok[h]) * Uint256::from(E18) / Uint256::from(total); }
                        recorded = deps.querier.bank; updates += 1;
                    }
                }
                "reconfig" => {
                    // the owner re-sends the configuration (possibly naming the reward denom already in use): nothing about the pool may change
                    let rd = if op["same_denom"].as_bool().unwrap_or(false) { Some(DENOM.to_string()) } else { None };
                    let r = execute(deps.as_mut(), mock_env(), mock_info("owner", &[]), ExecuteMsg::UpdateConfig { hub_contract: None, reward_denom: rd, swap_contract: None });
                    and(&mut c, "rw#C20.owner_update_accepted", r.is_ok());
                }
                "swap" => {
                    // the dispatcher asks the reward contract to swap stray coins into the reward denom: the reward coin itself must stay
                    let r = execute(deps.as_mut(), mock_env(), mock_info("dispatcher", &[]), ExecuteMsg::SwapToRewardDenom {});
                    if let Ok(resp) = r {
                        for m in resp.messages.iter() {
                            if let CosmosMsg::Wasm(WasmMsg::Execute { funds, .. }) = &m.msg { for f in funds { if f.denom == DENOM { deps.querier.bank = deps.querier.bank.saturating_sub(f.amount.u128()); } } }
                            if let CosmosMsg::Bank(BankMsg::Send { amount, .. }) = &m.msg { for f in amount { if f.denom == DENOM { deps.querier.bank = deps.querier.bank.saturating_sub(f.amount.u128()); } } }
                        }
                    }
                }
                "claim" => {
                    let hr = read_holder(&deps.storage, &deps.api.addr_canonicalize(&names[who]).unwrap()).unwrap();
                    let st = read_state(&deps.storage).unwrap();
                    let acc = Uint256::from((st.global_index.atomics() - hr.index.atomics()).u128()) * Uint256::from(hr.balance.u128()) + Uint256::from(hr.pending_rewards.atomics().u128());
                    let whole = (acc / Uint256::from(E18)).to_string().parse::<u128>().unwrap();
                    let r = execute(deps.as_mut(), mock_env(), mock_info(&names[who], &[]), ExecuteMsg::ClaimRewards { recipient: None });
                    match r {
                        Ok(resp) => {
                            let mut paid = 0u128;
                            for m in resp.messages.iter() { if let CosmosMsg::Bank(BankMsg::Send { to_address, amount }) = &m.msg { if to_address == &names[who] { paid += amount.iter().filter(|x| x.denom == DENOM).map(|x| x.amount.u128()).sum::<u128>(); } } }
                            and(&mut c, "rw#C14.claim_pays_whole_units", paid == whole && whole > 0);
                            and(&mut c, "rw#C14.claim_is_funded", paid <= deps.querier.bank);
                            deps.querier.bank = deps.querier.bank.saturating_sub(paid); recorded = recorded.saturating_sub(paid); claimed[who] += paid;
                            let h2 = read_holder(&deps.storage, &deps.api.addr_canonicalize(&names[who]).unwrap()).unwrap();
                            and(&mut c, "rw#C14.claim_keeps_fraction", Uint256::from(h2.pending_rewards.atomics().u128()) == acc - Uint256::from(whole) * Uint256::from(E18));
                        }
                        Err(_) => { and(&mut c, "rw#C14.claim_fails_only_without_whole_unit", whole == 0); }
                    }
                }
                _ => {}
            }
            // invariants after every step
            let st = read_state(&deps.storage).unwrap();
            let mut sum_acc = Uint256::zero(); let mut sum_whole = 0u128; let mut mirror = true; let mut prop = true;
            for h in 0..hn {
                let hr = read_holder(&deps.storage, &deps.api.addr_canonicalize(&names[h]).unwrap()).unwrap();
                let acc = Uint256::from((st.global_index.atomics() - hr.index.atomics()).u128()) * Uint256::from(hr.balance.u128()) + Uint256::from(hr.pending_rewards.atomics().u128());
                sum_acc += acc; sum_whole += (acc / Uint256::from(E18)).to_string().parse::<u128>().unwrap();
                if hr.balance.u128() != tok[h] { mirror = false; }
                // C15: accrued + claimed equals the pro-rata entitlement within one base unit (sub-unit rounding of the index)
                let have = acc + Uint256::from(claimed[h]) * Uint256::from(E18);
                let tol = Uint256::from(E18) * Uint256::from(1 + updates);
                if have > ideal[h] + tol || have + tol < ideal[h] { prop = false; }
            }
            and(&mut c, "rw#C16.mirror_balances", mirror && st.total_balance.u128() == tok.iter().sum::<u128>());
            and(&mut c, "rw#C14.claimable_le_recorded", sum_whole <= st.prev_reward_balance.u128() && sum_acc <= Uint256::from(st.prev_reward_balance.u128()) * Uint256::from(E18));
            and(&mut c, "rw#C14.recorded_le_actual", st.prev_reward_balance.u128() <= deps.querier.bank && st.prev_reward_balance.u128() == recorded);
            let dust = Uint256::from(E18) * Uint256::from((updates + 1) * (hn as u128) + steps);
            and(&mut c, "rw#C14.nothing_stranded", Uint256::from(st.prev_reward_balance.u128()) * Uint256::from(E18) <= sum_acc + dust);
            and(&mut c, "rw#C15.accrual_proportional", prop);
            trace.push(json!({"after": kind, "index": st.global_index.to_string(), "recorded": st.prev_reward_balance.to_string(), "bank": deps.querier.bank.to_string(), "sum_accrued_whole": sum_whole.to_string()}));
        }
        (c, json!({"trace": trace, "claimed": claimed.iter().map(|x| x.to_string()).collect::<Vec<_>>()}))
    }
}
