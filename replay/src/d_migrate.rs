//! Legacy wait-list migration on the real hub: MigrateUnbondWaitList over a storage holding n legacy entries (C11).
use crate::{Driver, Outcome, Rng};
use crate::d_hubworld::setup;
use basset::hub::{ExecuteMsg, Parameters};
use basset_sei_hub::contract::execute;
use basset_sei_hub::state::{read_old_unbond_wait_lists, PARAMETERS};
use cosmwasm_std::testing::{mock_env, mock_info};
use cosmwasm_std::Storage;
use serde_json::{json, Value};
use std::collections::BTreeMap;

pub struct HubMigrate;

fn legacy_key(addr: &str, batch: u64) -> Vec<u8> {
    // cosmwasm-storage multilevel namespace [b"wait", json(addr)] ++ json(batch): 2-byte big-endian length prefixes
    let a = format!("\"{}\"", addr).into_bytes();
    let mut k = vec![0u8, 4]; k.extend_from_slice(b"wait");
    k.push((a.len() >> 8) as u8); k.push((a.len() & 0xff) as u8); k.extend_from_slice(&a);
    k.extend_from_slice(batch.to_string().as_bytes());
    k
}

impl Driver for HubMigrate {
    fn gen(&self, rng: &mut Rng, i: u64) -> Value {
        let n = match i % 6 { 0 => 0, 1 => 1 + rng.next() % 4, 2 => 999 + rng.next() % 4, 3 => 1001 + rng.next() % 200, 4 => 2000 + rng.next() % 30, _ => rng.next() % 40 };
        let limit: Value = match rng.next() % 6 { 0 | 1 => Value::Null, 2 => json!(0), 3 => json!(1 + rng.next() % 5), 4 => json!(n), _ => json!(n + 1 + rng.next() % 3) };
        json!({"n": n, "limit": limit, "paused": rng.next() % 8 != 0})
    }
    fn run(&self, input: &Value) -> Outcome {
        let base = json!({"supply_b": "10", "supply_s": "10", "req_b": "0", "req_s": "0", "backing_b": "10", "backing_s": "10", "delegations": ["20"], "balance": "0", "prev_balance": "0",
                          "fee": "0", "threshold": "1000000000000000000", "epoch_period": "30"});
        let mut deps = setup(&base);
        let n = input["n"].as_u64().unwrap_or(0);
        for k in 0..n { deps.storage.set(&legacy_key(&format!("user{}", k % 7), k), format!("\"{}\"", 1 + k).as_bytes()); }
        let mut p: Parameters = PARAMETERS.load(&deps.storage).unwrap();
        let paused = input["paused"].as_bool().unwrap_or(true);
        p.paused = Some(paused);
        PARAMETERS.save(&mut deps.storage, &p).unwrap();
        let limit = input["limit"].as_u64().map(|l| l as u32);
        let before = read_old_unbond_wait_lists(&mut deps.storage, Some(u32::MAX)).unwrap().len() as u64;
        let res = execute(deps.as_mut(), mock_env(), mock_info("anyone", &[]), ExecuteMsg::MigrateUnbondWaitList { limit });
        let mut c = BTreeMap::new();
        let after = read_old_unbond_wait_lists(&mut deps.storage, Some(u32::MAX)).unwrap().len() as u64;
        let p1: Parameters = PARAMETERS.load(&deps.storage).unwrap();
        if res.is_ok() {
            c.insert("mig#C11.unpauses_only_when_drained".to_string(), p1.paused == Some(true) || after == 0);
            c.insert("mig#needs_pause".to_string(), paused);
            c.insert("mig#migrates_one_page".to_string(), before - after == before.min(limit.map(|l| l as u64).unwrap_or(1000)));
            c.insert("mig#no_messages".to_string(), res.as_ref().unwrap().messages.is_empty());
        } else {
            c.insert("mig#rejected_changes_nothing".to_string(), after == before && p1.paused == Some(paused));
            c.insert("mig#succeeds_when_paused".to_string(), !paused);
        }
        (c, json!({"legacy_before": before, "legacy_after": after, "paused_after": p1.paused, "err": res.err().map(|e| e.to_string())}))
    }
}
