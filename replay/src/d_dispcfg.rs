//! The dispatcher's stored parameters under instantiate + a sequence of owner updates on the real contract (C20).
use crate::{Driver, Outcome, Rng};
use basset_sei_rewards_dispatcher::contract::{execute, instantiate};
use basset_sei_rewards_dispatcher::msg::{ExecuteMsg, InstantiateMsg};
use basset_sei_rewards_dispatcher::state::read_config;
use cosmwasm_std::testing::{mock_dependencies, mock_env, mock_info};
use cosmwasm_std::testing::MockStorage;
use cosmwasm_std::{Decimal, Order, Storage, Uint128};
use serde_json::{json, Value};
use std::collections::BTreeMap;

const E18: u128 = 1_000_000_000_000_000_000;
fn u(v: &Value) -> u128 { v.as_str().map(|s| s.parse().unwrap()).unwrap_or_else(|| v.as_u64().unwrap_or(0) as u128) }
fn rate(rng: &mut Rng) -> u128 {
    match rng.next() % 8 { 0 => 0, 1 => E18, 2 => E18 + 1, 3 => E18 + rng.below(200_000_000_000_000), 4 => E18 + 50_000_000_000_000, 5 => 2 * E18, 6 => E18 - 1, _ => rng.below(E18 + 1) }
}
pub struct DispCfg;
impl Driver for DispCfg {
    fn gen(&self, rng: &mut Rng, _i: u64) -> Value {
        let n = 1 + rng.next() % 4;
        let dn = ["usei", "uusd", "uatom", "usdr"];
        let ups: Vec<Value> = (0..n).map(|_| if rng.next() % 3 == 0 { json!({"sender": if rng.next() % 5 == 0 { "mallory" } else { "owner" }, "swap_denom": dn[(rng.next() % 4) as usize], "is_add": rng.next() % 2 == 0}) } else { json!({"sender": if rng.next() % 4 == 0 { "mallory" } else { "owner" }, "rate": if rng.next() % 3 == 0 { Value::Null } else { json!(rate(rng).to_string()) },
                                                   "stsei_denom": rng.next() % 4 == 0, "keeper": rng.next() % 3 == 0}) }).collect();
        json!({"init_rate": rate(rng).to_string(), "updates": ups})
    }
    fn run(&self, input: &Value) -> Outcome {
        let mut deps = mock_dependencies();
        let dec = |x: u128| Decimal::new(Uint128::new(x));
        let mut c: BTreeMap<String, bool> = BTreeMap::new();
        let and = |c: &mut BTreeMap<String, bool>, k: &str, v: bool| { let e = c.entry(k.to_string()).or_insert(true); *e = *e && v; };
        let r0 = u(&input["init_rate"]);
        let res = instantiate(deps.as_mut(), mock_env(), mock_info("owner", &[]), InstantiateMsg { hub_contract: "hub".into(), bsei_reward_contract: "reward".into(), stsei_reward_denom: "usei".into(),
            bsei_reward_denom: "uusd".into(), krp_keeper_address: "keeper".into(), krp_keeper_rate: dec(r0), swap_contract: "swap".into(), swap_denoms: vec!["usei".into(), "uusd".into()], oracle_contract: "oracle".into() });
        and(&mut c, "dcfg#C20.instantiate_rejects_rate_above_one", res.is_ok() == (r0 <= E18));
        let mut trace = vec![json!({"instantiate": res.is_ok()})];
        if res.is_ok() {
            for up in input["updates"].as_array().unwrap() {
                let before = read_config(&deps.storage).unwrap();
                let sender = up["sender"].as_str().unwrap();
                if let Some(dnm) = up["swap_denom"].as_str() {
                    // UpdateSwapDenom: adding lists the denom (whether or not it was listed), removing unlists it, nothing else moves
                    let is_add = up["is_add"].as_bool().unwrap_or(true);
                    let snap: Vec<(Vec<u8>, Vec<u8>)> = deps.storage.range(None, None, Order::Ascending).collect();
                    let r = execute(deps.as_mut(), mock_env(), mock_info(sender, &[]), ExecuteMsg::UpdateSwapDenom { swap_denom: dnm.to_string(), is_add });
                    if r.is_err() { let mut st = MockStorage::default(); for (k, v) in snap.iter() { st.set(k, v); } deps.storage = st; }
                    if r.is_ok() {
                        let after = read_config(&deps.storage).unwrap();
                        and(&mut c, "dcfg#C10.owner_only", sender == "owner");
                        let others_same = ["usei", "uusd", "uatom", "usdr"].iter().filter(|d| **d != dnm).all(|d| before.swap_denoms.iter().any(|x| x == d) == after.swap_denoms.iter().any(|x| x == d));
                        and(&mut c, "dcfg#C20.swap_denom_added_or_removed_exactly", after.swap_denoms.iter().any(|x| x == dnm) == is_add && others_same
                            && after.krp_keeper_rate == before.krp_keeper_rate && after.stsei_reward_denom == before.stsei_reward_denom && after.bsei_reward_denom == before.bsei_reward_denom);
                    }
                    trace.push(json!({"sender": sender, "swap_denom": dnm, "is_add": is_add, "accepted": r.is_ok()}));
                    continue;
                }
                let nr = if up["rate"].is_null() { None } else { Some(u(&up["rate"])) };
                let msg = ExecuteMsg::UpdateConfig { hub_contract: None, bsei_reward_contract: None, stsei_reward_denom: if up["stsei_denom"].as_bool().unwrap_or(false) { Some("uother".into()) } else { None },
                    bsei_reward_denom: None, krp_keeper_address: if up["keeper"].as_bool().unwrap_or(false) { Some("keeper2".into()) } else { None }, krp_keeper_rate: nr.map(dec) };
                let snap: Vec<(Vec<u8>, Vec<u8>)> = deps.storage.range(None, None, Order::Ascending).collect();
                let r = execute(deps.as_mut(), mock_env(), mock_info(sender, &[]), msg);
                if r.is_err() { let mut st = MockStorage::default(); for (k, v) in snap.iter() { st.set(k, v); } deps.storage = st; }   // A7
                // A7: a rejected execute leaves no writes; the mock does not roll back, so compare only after an accepted one
                if r.is_ok() {
                    let after = read_config(&deps.storage).unwrap();
                    and(&mut c, "dcfg#C10.owner_only", sender == "owner");
                    and(&mut c, "dcfg#C20.keeper_rate_never_exceeds_one", after.krp_keeper_rate <= Decimal::one());
                    and(&mut c, "dcfg#C20.stsei_reward_denom_never_changes", after.stsei_reward_denom == before.stsei_reward_denom);
                    and(&mut c, "dcfg#C20.omitted_fields_keep_their_value", (nr.is_some() || after.krp_keeper_rate == before.krp_keeper_rate) && after.hub_contract == before.hub_contract
                        && after.bsei_reward_contract == before.bsei_reward_contract && after.bsei_reward_denom == before.bsei_reward_denom && after.swap_denoms == before.swap_denoms
                        && (up["keeper"].as_bool().unwrap_or(false) || after.krp_keeper_address == before.krp_keeper_address));
                    if let Some(x) = nr { and(&mut c, "dcfg#C20.given_rate_is_stored", after.krp_keeper_rate == dec(x)); }
                }
                trace.push(json!({"sender": sender, "rate": nr.map(|x| x.to_string()), "accepted": r.is_ok()}));
                if r.is_err() && sender == "owner" && nr.map_or(true, |x| x <= E18) && !up["stsei_denom"].as_bool().unwrap_or(false) { and(&mut c, "dcfg#C20.valid_update_accepted", false); }
            }
        }
        (c, json!({"trace": trace}))
    }
}
