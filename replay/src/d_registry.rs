use crate::{Driver, Outcome, Rng};
use basset_sei_validators_registry::common::{calculate_delegations, calculate_undelegations};
use basset_sei_validators_registry::registry::ValidatorResponse;
use cosmwasm_std::Uint128;
use serde_json::{json, Value};
use std::collections::BTreeMap;

fn vals(input: &Value) -> (u128, Vec<ValidatorResponse>) {
    let amount: u128 = input["amount"].as_str().unwrap().parse().unwrap();
    let ds: Vec<ValidatorResponse> = input["delegations"].as_array().unwrap().iter().enumerate().map(|(i, d)| ValidatorResponse {
        total_delegated: Uint128::new(d.as_str().unwrap().parse().unwrap()), address: format!("val{}", i) }).collect();
    (amount, ds)
}
fn gen_common(rng: &mut Rng, i: u64) -> (u128, Vec<u128>) {
    let n = match i % 7 { 0 => 0, 1 => 1, 2 => 2, _ => 1 + (rng.next() % 9) as usize };
    let cap: u128 = if rng.next() % 4 == 0 { 1_000_000_000_000_000_000 } else { 50 };
    let ds: Vec<u128> = (0..n).map(|_| rng.amount(cap)).collect();
    (rng.amount(cap * 3), ds)
}

pub struct CalcDelegations;
impl Driver for CalcDelegations {
    fn gen(&self, rng: &mut Rng, i: u64) -> Value {
        let (a, ds) = gen_common(rng, i);
        json!({"amount": a.to_string(), "delegations": ds.iter().map(|d| d.to_string()).collect::<Vec<_>>()})
    }
    fn run(&self, input: &Value) -> Outcome {
        let (amount, vs) = vals(input);
        let n = vs.len() as u128;
        let total: u128 = vs.iter().map(|v| v.total_delegated.u128()).sum::<u128>() + amount;
        let res = calculate_delegations(Uint128::new(amount), &vs);
        let mut c = BTreeMap::new();
        c.insert("cd#fail_iff_empty".into(), !(n == 0) || res.is_err());
        c.insert("cd#ok_iff_nonempty".into(), !(n > 0) || res.is_ok());
        let mut obs = json!({"err": res.is_err()});
        if let Ok((rem, dels)) = res {
            let sum: u128 = dels.iter().map(|d| d.u128()).sum();
            c.insert("cd#nothing_left_over".into(), rem.is_zero());
            c.insert("cd#shape".into(), dels.len() == vs.len());
            c.insert("cd#sum_exact".into(), sum == amount);
            let (q, r) = (total / n, total % n);
            let cap_ok = dels.iter().enumerate().all(|(i, d)| {
                let tgt = q + if (i as u128) < r { 1 } else { 0 };
                d.u128() <= tgt.saturating_sub(vs[i].total_delegated.u128())
            });
            c.insert("cd#cap_even_share".into(), cap_ok);
            obs = json!({"remainder": rem.to_string(), "delegations": dels.iter().map(|d| d.to_string()).collect::<Vec<_>>(), "sum": sum.to_string()});
        }
        (c, obs)
    }
}

pub struct CalcUndelegations;
impl Driver for CalcUndelegations {
    fn gen(&self, rng: &mut Rng, i: u64) -> Value {
        let (a, ds) = gen_common(rng, i);
        let tot: u128 = ds.iter().sum();
        let a = if rng.next() % 5 == 0 { a } else if tot > 0 { a % (tot + 1) } else { 0 };
        json!({"amount": a.to_string(), "delegations": ds.iter().map(|d| d.to_string()).collect::<Vec<_>>()})
    }
    fn run(&self, input: &Value) -> Outcome {
        let (amount, vs) = vals(input);
        let n = vs.len() as u128;
        let total: u128 = vs.iter().map(|v| v.total_delegated.u128()).sum::<u128>();
        let res = calculate_undelegations(Uint128::new(amount), vs.clone());
        let mut c = BTreeMap::new();
        c.insert("cu#fails_only_when".into(), !(n == 0 || amount > total) || res.is_err());
        c.insert("cu#succeeds_otherwise".into(), !(n > 0 && amount <= total) || res.is_ok());
        let mut obs = json!({"err": res.is_err()});
        if let Ok(us) = res {
            let sum: u128 = us.iter().map(|d| d.u128()).sum();
            c.insert("cu#shape".into(), us.len() == vs.len());
            c.insert("cu#sum_exact".into(), sum == amount);
            c.insert("cu#le_held".into(), us.iter().zip(vs.iter()).all(|(u, v)| u.u128() <= v.total_delegated.u128()));
            let rest = total - amount.min(total);
            let (q, r) = (rest / n, rest % n);
            let ok = us.iter().enumerate().all(|(i, u)| {
                let tgt = q + if (i as u128) < r { 1 } else { 0 };
                let d = vs[i].total_delegated.u128();
                u.u128() <= d && d - u.u128() >= d.min(tgt)
            });
            c.insert("cu#floor_even_share".into(), ok);
            obs = json!({"undelegations": us.iter().map(|d| d.to_string()).collect::<Vec<_>>(), "sum": sum.to_string()});
        }
        (c, obs)
    }
}
