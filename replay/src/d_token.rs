//! A world around the real bSei token contract: every cw20 operation runs on the real `execute`; the mirror messages it emits to the
//! reward contract are applied to a mirror ledger (C16), balances and supply are read back through the real queries (C18).
use crate::{Driver, Outcome, Rng};
use basset_sei_token_bsei::contract::{execute, instantiate, query};
use basset_sei_token_bsei::msg::TokenInitMsg;
use cosmwasm_std::testing::{mock_env, mock_info, MockApi, MockStorage};
use cosmwasm_std::{Order, Storage, from_json, to_json_binary, Binary, ContractResult, CosmosMsg, Decimal, Empty, OwnedDeps, Querier, QuerierResult, QueryRequest, SystemError, SystemResult, Uint128, WasmMsg, WasmQuery};
use cw20::{AllowanceResponse, BalanceResponse, Cw20Coin, TokenInfoResponse};
use cw20_legacy::msg::{ExecuteMsg, QueryMsg};
use serde_json::{json, Value};
use std::collections::BTreeMap;
use std::marker::PhantomData;

pub struct TWorld;
impl Querier for TWorld {
    fn raw_query(&self, bin: &[u8]) -> QuerierResult {
        let req: QueryRequest<Empty> = match from_json(bin) { Ok(r) => r, Err(e) => return SystemResult::Err(SystemError::InvalidRequest { error: e.to_string(), request: bin.into() }) };
        match req {
            QueryRequest::Wasm(WasmQuery::Smart { contract_addr, .. }) if contract_addr == "hub" => {
                let c = basset::hub::ConfigResponse { owner: "owner".into(), update_reward_index_addr: "updater".into(), reward_dispatcher_contract: Some("dispatcher".into()),
                    validators_registry_contract: Some("registry".into()), bsei_token_contract: Some("cosmos2contract".into()), stsei_token_contract: Some("stsei_token".into()),
                    airdrop_registry_contract: Some("airdrop".into()), token_contract: None };
                SystemResult::Ok(ContractResult::Ok(to_json_binary(&c).unwrap()))
            }
            QueryRequest::Wasm(WasmQuery::Smart { contract_addr, .. }) if contract_addr == "dispatcher" => {
                let c = basset::dispatcher::ConfigResponse { owner: "owner".into(), hub_contract: "hub".into(), bsei_reward_contract: "reward".into(), stsei_reward_denom: "usei".into(),
                    bsei_reward_denom: "uusd".into(), krp_keeper_address: "keeper".into(), krp_keeper_rate: Decimal::zero(), swap_contract: "swap".into(), swap_denoms: vec![], oracle_contract: "oracle".into() };
                SystemResult::Ok(ContractResult::Ok(to_json_binary(&c).unwrap()))
            }
            _ => SystemResult::Err(SystemError::UnsupportedRequest { kind: "tworld".into() }),
        }
    }
}
fn u(v: &Value) -> u128 { v.as_str().map(|s| s.parse().unwrap()).unwrap_or_else(|| v.as_u64().unwrap_or(0) as u128) }
const WHO: [&str; 6] = ["user0", "user1", "user2", "hub", "vault", "user3"];

pub struct TokenWorld;
impl Driver for TokenWorld {
    fn gen(&self, rng: &mut Rng, i: u64) -> Value {
        let n = 3 + rng.next() % 12;
        let cap: u128 = if i % 3 == 0 { 1_000_000_000_000 } else { 1000 };
        let init: Vec<String> = (0..3).map(|_| rng.amount(cap).to_string()).collect();
        if i % 9 == 4 {
            // one holder owns the whole supply, approves a spender for all of it, and the spender burns it (in one or two steps)
            let x = 1 + rng.amount(cap);
            let mut ops = vec![json!({"op": "allow", "a": 0, "b": 1, "c": 0, "amt": x.to_string(), "mode": 0, "exp": Value::Null, "tick": 0})];
            if rng.next() % 2 == 0 { ops.push(json!({"op": "burn_from", "a": 0, "b": 1, "c": 0, "amt": "1", "mode": 3, "exp": Value::Null, "tick": 0})); }
            ops.push(json!({"op": "burn_from", "a": 0, "b": 1, "c": 0, "amt": "1", "mode": 1, "exp": Value::Null, "tick": 0}));
            return json!({"init": [x.to_string(), "0", "0"], "ops": ops});
        }
        let mut ops = vec![];
        for _ in 0..n {
            let (mut a, mut b, c) = (rng.next() % 6, rng.next() % 6, rng.next() % 6);
            let kind = ["mint", "transfer", "send", "burn", "allow", "transfer_from", "burn_from", "send_from", "mint", "transfer", "deallow"][(rng.next() % 11) as usize];
            // amounts relative to the balance / allowance are resolved at run time: mode 0 = small, 1 = all, 2 = one more than available, 3 = half
            // allowance operations mostly revolve around one owner/spender pair, so that grants, top-ups, expiry and spending meet
            if matches!(kind, "allow" | "deallow" | "transfer_from" | "burn_from" | "send_from") && rng.next() % 3 != 0 { a = 0; b = 1; }
            // an allowance may carry an expiry (block height); time passes between operations
            let exp: Value = if rng.next() % 3 == 0 { json!(rng.next() % 6) } else { Value::Null };
            ops.push(json!({"op": kind, "a": a, "b": b, "c": c, "amt": rng.amount(cap).to_string(), "mode": rng.next() % 4, "exp": exp, "tick": rng.next() % 3}));
        }
        json!({"init": init, "ops": ops})
    }
    fn run(&self, input: &Value) -> Outcome {
        let mut deps = OwnedDeps { storage: MockStorage::default(), api: MockApi::default(), querier: TWorld, custom_query_type: PhantomData::<Empty> };
        let init: Vec<u128> = input["init"].as_array().unwrap().iter().map(u).collect();
        let coins: Vec<Cw20Coin> = init.iter().enumerate().filter(|(_, a)| **a > 0).map(|(k, a)| Cw20Coin { address: WHO[k].to_string(), amount: Uint128::new(*a) }).collect();
        instantiate(deps.as_mut(), mock_env(), mock_info("hub", &[]), TokenInitMsg { name: "bsei".into(), symbol: "BSEI".into(), decimals: 6, initial_balances: coins, hub_contract: "hub".into() }).unwrap();
        let mut bal: BTreeMap<String, u128> = WHO.iter().map(|w| (w.to_string(), 0)).collect();
        for (k, a) in init.iter().enumerate() { *bal.get_mut(WHO[k]).unwrap() += *a; }
        // the reward contract's mirror starts from the same initial balances (the deployment mints through the hub; initial rows are a deployment concern)
        let mut mirror = bal.clone();
        let mut allow: BTreeMap<(String, String), u128> = BTreeMap::new();
        let mut allow_exp: BTreeMap<(String, String), u64> = BTreeMap::new();     // expiry height of an allowance (absent: never)
        let mut height: u64 = 12_345;
        let mut c: BTreeMap<String, bool> = BTreeMap::new();
        let and = |c: &mut BTreeMap<String, bool>, k: &str, v: bool| { let e = c.entry(k.to_string()).or_insert(true); *e = *e && v; };
        let mut trace = vec![];
        for op in input["ops"].as_array().unwrap() {
            let kind = op["op"].as_str().unwrap();
            let (a, b, d) = (WHO[op["a"].as_u64().unwrap() as usize % 6], WHO[op["b"].as_u64().unwrap() as usize % 6], WHO[op["c"].as_u64().unwrap() as usize % 6]);
            let mode = op["mode"].as_u64().unwrap_or(0);
            let pick = |avail: u128| -> u128 { match mode { 0 => u(&op["amt"]).min(avail.max(1)), 1 => avail, 2 => avail + 1, _ => avail / 2 } };
            height += op["tick"].as_u64().unwrap_or(0);
            let mut env = mock_env(); env.block.height = height;
            let exp_h: Option<u64> = op["exp"].as_u64().map(|d| height + d);
            let hook = Binary::from(b"{}".to_vec());
            // (sender, message, expected effect on the ledger if accepted, must it be accepted / rejected)
            let (sender, msg, amt): (&str, ExecuteMsg, u128) = match kind {
                "mint" => { let x = u(&op["amt"]); (if mode == 2 { a } else { "hub" }, ExecuteMsg::Mint { recipient: b.to_string(), amount: Uint128::new(x) }, x) }
                "transfer" => { let x = pick(bal[a]); (a, ExecuteMsg::Transfer { recipient: b.to_string(), amount: Uint128::new(x) }, x) }
                "send" => { let x = pick(bal[a]); (a, ExecuteMsg::Send { contract: b.to_string(), amount: Uint128::new(x), msg: hook.clone() }, x) }
                "burn" => { let s = if mode == 2 { a } else { "hub" }; let x = pick(bal[s]).min(bal[s]); (s, ExecuteMsg::Burn { amount: Uint128::new(x) }, x) }
                "deallow" => { let x = match mode { 0 => 0, 1 => *allow.get(&(a.to_string(), b.to_string())).unwrap_or(&0), _ => u(&op["amt"]) }; (a, ExecuteMsg::DecreaseAllowance { spender: b.to_string(), amount: Uint128::new(x), expires: exp_h.map(cw20::Expiration::AtHeight) }, x) }
                "allow" => { let x = u(&op["amt"]); (a, ExecuteMsg::IncreaseAllowance { spender: b.to_string(), amount: Uint128::new(x), expires: exp_h.map(cw20::Expiration::AtHeight) }, x) }
                "transfer_from" => { let x = pick(*allow.get(&(a.to_string(), b.to_string())).unwrap_or(&0)); (b, ExecuteMsg::TransferFrom { owner: a.to_string(), recipient: d.to_string(), amount: Uint128::new(x) }, x) }
                "burn_from" => { let x = pick(*allow.get(&(a.to_string(), b.to_string())).unwrap_or(&0)); (b, ExecuteMsg::BurnFrom { owner: a.to_string(), amount: Uint128::new(x) }, x) }
                _ => { let x = pick(*allow.get(&(a.to_string(), b.to_string())).unwrap_or(&0)); (b, ExecuteMsg::SendFrom { owner: a.to_string(), contract: d.to_string(), amount: Uint128::new(x), msg: hook.clone() }, x) }
            };
            let before = bal.clone();
            // VM atomicity (A7): a rejected execute leaves no writes behind
            let snap: Vec<(Vec<u8>, Vec<u8>)> = deps.storage.range(None, None, Order::Ascending).collect();
            let res = execute(deps.as_mut(), env.clone(), mock_info(sender, &[]), msg);
            let ok = res.is_ok();
            if !ok { let mut st = MockStorage::default(); for (k, v) in snap.iter() { st.set(k, v); } deps.storage = st; }
            let al = *allow.get(&(a.to_string(), b.to_string())).unwrap_or(&0);
            // the cw20 ledger semantics the property states
            let mut expect_ok = true;
            match kind {
                "mint" => { expect_ok = sender == "hub"; if ok { *bal.get_mut(b).unwrap() += amt; } and(&mut c, "tw#C18.only_hub_mints", ok == expect_ok || (expect_ok && amt == 0)); }
                "transfer" | "send" => { expect_ok = amt <= before[a]; if expect_ok && amt > 0 { and(&mut c, "tw#C09.transfer_and_send_within_balance_succeed", ok); } if ok { *bal.get_mut(a).unwrap() -= amt; *bal.get_mut(b).unwrap() += amt; } and(&mut c, "tw#C18.transfer_within_balance", !ok || expect_ok); }
                "burn" => { expect_ok = sender == "hub" && amt <= before[sender]; if expect_ok && amt > 0 { and(&mut c, "tw#C09.hub_burn_within_its_balance_succeeds", ok); } if ok { *bal.get_mut(sender).unwrap() -= amt; } and(&mut c, "tw#C18.only_hub_burns_own", !ok || expect_ok); }
                "deallow" => { if ok {
                        // cw20: the allowance shrinks (an entry reaching zero is dropped); a given expiry replaces the stored one
                        let cur = *allow.get(&(a.to_string(), b.to_string())).unwrap_or(&0);
                        if amt >= cur { allow.remove(&(a.to_string(), b.to_string())); allow_exp.remove(&(a.to_string(), b.to_string())); }
                        else { allow.insert((a.to_string(), b.to_string()), cur - amt); if let Some(e) = exp_h { allow_exp.insert((a.to_string(), b.to_string()), e); } } } }
                "allow" => { if ok { *allow.entry((a.to_string(), b.to_string())).or_insert(0) += amt; if let Some(e) = exp_h { allow_exp.insert((a.to_string(), b.to_string()), e); } } }
                "transfer_from" | "send_from" => { expect_ok = amt <= al && amt <= before[a]; if ok { *bal.get_mut(a).unwrap() -= amt; *bal.get_mut(d).unwrap() += amt; allow.insert((a.to_string(), b.to_string()), al.saturating_sub(amt)); } and(&mut c, "tw#C18.never_more_than_allowance", !ok || expect_ok); }
                _ => { expect_ok = amt <= al && amt <= before[a]; if ok { *bal.get_mut(a).unwrap() -= amt; allow.insert((a.to_string(), b.to_string()), al.saturating_sub(amt)); } and(&mut c, "tw#C18.never_more_than_allowance", !ok || expect_ok); }
            }
            if matches!(kind, "transfer_from" | "burn_from" | "send_from") {
                // an allowance whose expiry height has been reached can not be used (a top-up that omits `expires` keeps the stored expiry)
                let expired = allow_exp.get(&(a.to_string(), b.to_string())).map_or(false, |e| *e <= height);
                and(&mut c, "tw#C18.expired_allowance_is_never_spent", !(ok && expired && amt > 0));
            }
            // mirror messages of an accepted operation
            let mut slashing_check = false;
            if let Ok(resp) = &res {
                for m in resp.messages.iter() {
                    if let CosmosMsg::Wasm(WasmMsg::Execute { contract_addr, msg, .. }) = &m.msg {
                        if contract_addr == "reward" {
                            match from_json::<basset::reward::ExecuteMsg>(msg) {
                                Ok(basset::reward::ExecuteMsg::IncreaseBalance { address, amount }) => { *mirror.entry(address).or_insert(0) += amount.u128(); }
                                Ok(basset::reward::ExecuteMsg::DecreaseBalance { address, amount }) => { let e = mirror.entry(address).or_insert(0); if *e < amount.u128() { and(&mut c, "tw#C16.mirror_decrease_within_balance", false); } *e = e.saturating_sub(amount.u128()); }
                                _ => {}
                            }
                        } else if contract_addr == "hub" && String::from_utf8_lossy(msg.as_slice()).contains("check_slashing") { slashing_check = true; }
                    }
                }
                if kind == "burn_from" { and(&mut c, "tw#C18.allowance_burn_refreshes_rates", slashing_check); }
            }
            // read everything back through the real queries
            let mut sum = 0u128; let mut same = true; let mut mir = true;
            for w in WHO.iter() {
                let r: BalanceResponse = from_json(&query(deps.as_ref(), mock_env(), QueryMsg::Balance { address: w.to_string() }).unwrap()).unwrap();
                sum += r.balance.u128();
                if r.balance.u128() != bal[*w] { same = false; }
                if *mirror.get(*w).unwrap_or(&0) != r.balance.u128() { mir = false; }
            }
            let ti: TokenInfoResponse = from_json(&query(deps.as_ref(), mock_env(), QueryMsg::TokenInfo {}).unwrap()).unwrap();
            and(&mut c, "tw#C18.supply_is_sum_of_balances", ti.total_supply.u128() == sum);
            and(&mut c, "tw#C18.ledger_follows_cw20_semantics", same);
            and(&mut c, "tw#C16.mirror_equals_token_balances", mir);
            if !ok { and(&mut c, "tw#rejected_changes_nothing", same); }
            if matches!(kind, "transfer_from" | "burn_from" | "send_from") {
                let ar: AllowanceResponse = from_json(&query(deps.as_ref(), mock_env(), QueryMsg::Allowance { owner: a.to_string(), spender: b.to_string() }).unwrap()).unwrap();
                and(&mut c, "tw#C18.allowance_spent_exactly", ar.allowance.u128() == *allow.get(&(a.to_string(), b.to_string())).unwrap_or(&0));
            }
            trace.push(json!({"op": kind, "sender": sender, "amount": amt.to_string(), "accepted": ok, "supply": ti.total_supply.to_string(), "err": res.err().map(|e| e.to_string())}));
        }
        (c, json!({"trace": trace}))
    }
}
