//! Whole-history exploration of the real hub: a sequence of user, keeper and chain events on one evolving state.  The messages the hub
//! emits are applied to a small chain model (token supplies, delegations, unbonding queue, bank balance), so the invariants the
//! per-call contracts only imply by composition are observed directly (C01 funding, C02, C04, C07, C08, C09).
use crate::{Driver, Outcome, Rng};
use crate::d_hubworld::{setup, uer, mulf, World, DENOM, E18};
use basset::hub::{AllHistoryResponse, CurrentBatch, Cw20HookMsg, ExecuteMsg, QueryMsg, State, UnbondHistory, UnbondRequestsResponse};
use basset_sei_hub::contract::{execute, query};
use basset_sei_hub::state::{read_unbond_history, CURRENT_BATCH, STATE};
use cosmwasm_std::testing::{mock_env, mock_info, MockApi, MockStorage};
use cosmwasm_std::{coins, from_json, to_json_binary, BankMsg, CosmosMsg, Empty, Order, OwnedDeps, Response, StakingMsg, StdError, Storage, Uint128, WasmMsg};
use cw20::{Cw20ExecuteMsg, Cw20ReceiveMsg};
use serde_json::{json, Value};
use std::collections::BTreeMap;

pub struct HubSeq;
const USERS: [&str; 3] = ["alice", "bob", "carol"];
const UNBONDING: u64 = 1000;      // setup() stores unbonding_period = 1000
fn u(v: &Value) -> u128 { v.as_str().map(|s| s.parse().unwrap()).unwrap_or_else(|| v.as_u64().unwrap_or(0) as u128) }

type Deps = OwnedDeps<MockStorage, MockApi, World, Empty>;

fn call(deps: &mut Deps, now: u64, sender: &str, funds: u128, msg: ExecuteMsg) -> Result<Response, StdError> {
    let mut env = mock_env(); env.block.time = cosmwasm_std::Timestamp::from_seconds(now);
    let f = if funds > 0 { coins(funds, DENOM) } else { vec![] };
    // VM atomicity: a rejected execute leaves no writes behind
    let snap: Vec<(Vec<u8>, Vec<u8>)> = deps.storage.range(None, None, Order::Ascending).collect();
    let r = execute(deps.as_mut(), env, mock_info(sender, &f), msg);
    if r.is_err() { let mut st = MockStorage::default(); for (k, v) in snap.iter() { st.set(k, v); } deps.storage = st; }
    r
}

/// histories with the shape that matters for C01: bonds, optional slashing, several unbond rounds in separate batches (some of a single
/// base unit), optional loss on the unbonding stake, the unbonding period, then everybody withdraws in some order
fn gen_phased(rng: &mut Rng, i: u64) -> Value {
    let cap: u128 = if i % 4 == 1 { 5000 } else { 1_000_000_000 };
    let mut ops = vec![];
    for who in 0..3 { ops.push(json!({"op": if rng.next() % 3 == 0 { "bond_stsei" } else { "bond" }, "who": who, "amt": (10 + rng.amount(cap)).to_string()}));
                      if rng.next() % 2 == 0 { ops.push(json!({"op": "bond_stsei", "who": who, "amt": (10 + rng.amount(cap)).to_string()})); } }
    let disturbed = i % 3 != 0;
    if disturbed && rng.next() % 2 == 0 { ops.push(json!({"op": "slash", "permille": 1 + rng.next() % 200, "queue": false})); ops.push(json!({"op": "check_slashing"})); }
    let rounds = 1 + rng.next() % 4;
    for _ in 0..rounds {
        let k = 1 + rng.next() % 3;
        for _ in 0..k {
            let who = rng.next() % 3; let st = rng.next() % 3 == 0;
            if rng.next() % 3 == 0 { ops.push(json!({"op": if st { "unbond_stsei" } else { "unbond_bsei" }, "who": who, "units": 1 + rng.next() % 3})); }
            else { ops.push(json!({"op": if st { "unbond_stsei" } else { "unbond_bsei" }, "who": who, "frac": 1 + rng.next() % 4})); }
        }
        if rng.next() % 3 == 0 { ops.push(json!({"op": "wait", "dt": 20})); ops.push(json!({"op": "update_global"})); ops.push(json!({"op": "wait", "dt": 11 + rng.next() % 10})); }
        else { ops.push(json!({"op": "wait", "dt": 31 + rng.next() % 10})); }
    }
    // the unbond that closes the last batch
    ops.push(json!({"op": "unbond_bsei", "who": rng.next() % 3, "units": 1}));
    if disturbed && rng.next() % 2 == 0 { ops.push(json!({"op": "slash", "permille": 1 + rng.next() % 300, "queue": true})); }
    if disturbed && rng.next() % 4 == 0 { ops.push(json!({"op": "donate", "amt": rng.amount(1000).to_string()})); }
    { let dt = [990u64, 1000, 1000, 1001, 1001, 1040][(rng.next() % 6) as usize]; ops.push(json!({"op": "wait", "dt": dt})); }
    for _ in 0..(3 + rng.next() % 4) { ops.push(json!({"op": "withdraw", "who": rng.next() % 3})); if rng.next() % 4 == 0 { ops.push(json!({"op": "wait", "dt": 45})); } }
    let fee = match rng.next() % 3 { 0 => 0, 1 => E18 / 20, _ => rng.below(E18 / 2) };
    json!({"ops": ops, "fee": fee.to_string(), "threshold": E18.to_string(), "validators": 1 + rng.next() % 3})
}

impl Driver for HubSeq {
    fn gen(&self, rng: &mut Rng, i: u64) -> Value {
        if i % 499 == 7 {
            // one claimant collects claims in more than a hundred batches before withdrawing (bounds and paging limits in the withdraw path)
            let mut ops = vec![json!({"op": "bond", "who": 1, "amt": "1000000"}), json!({"op": "bond", "who": 0, "amt": "1000"})];
            let k = 100 + rng.next() % 8;
            for _ in 0..k { ops.push(json!({"op": "unbond_bsei", "who": 1, "units": 1 + rng.next() % 3})); ops.push(json!({"op": "wait", "dt": 31})); }
            ops.push(json!({"op": "unbond_bsei", "who": 0, "units": 10})); ops.push(json!({"op": "wait", "dt": 31})); ops.push(json!({"op": "unbond_bsei", "who": 0, "units": 1}));
            ops.push(json!({"op": "wait", "dt": 1001}));
            for w in [1u64, 1, 0, 1] { ops.push(json!({"op": "withdraw", "who": w})); }
            return json!({"ops": ops, "fee": "0", "threshold": E18.to_string(), "validators": 2});
        }
        if i % 2 == 1 { return gen_phased(rng, i); }
        let n = 6 + rng.next() % 20;
        let cap: u128 = if i % 4 == 0 { 1_000_000_000_000 } else if i % 4 == 1 { 40 } else { 100_000 };
        let quiet = i % 3 != 0;        // no slashing and no unsolicited transfers in two thirds of the histories
        let mut ops = vec![];
        for _ in 0..n {
            let who = rng.next() % 3;
            let k = rng.next() % 20;
            ops.push(match k {
                0 | 1 | 2 => json!({"op": "bond", "who": who, "amt": (1 + rng.amount(cap)).to_string()}),
                3 | 4 => json!({"op": "bond_stsei", "who": who, "amt": (1 + rng.amount(cap)).to_string()}),
                5 | 6 | 7 => json!({"op": "unbond_bsei", "who": who, "frac": 1 + rng.next() % 4}),
                8 | 9 => json!({"op": "unbond_stsei", "who": who, "frac": 1 + rng.next() % 4}),
                10 => json!({"op": "convert_bs", "who": who, "frac": 1 + rng.next() % 4}),
                11 => json!({"op": "convert_sb", "who": who, "frac": 1 + rng.next() % 4}),
                12 | 13 | 14 => json!({"op": "withdraw", "who": who}),
                15 | 16 => { let dt = [5u64, 31, 40, 500, 1000, 1001][(rng.next() % 6) as usize]; json!({"op": "wait", "dt": dt}) }
                17 => if rng.next() % 2 == 0 { json!({"op": "bond_rewards", "amt": (1 + rng.amount(cap / 10 + 1)).to_string()}) } else { json!({"op": "update_global"}) },
                18 => if quiet { json!({"op": "check_slashing"}) } else { json!({"op": "slash", "permille": 1 + rng.next() % 300, "queue": rng.next() % 2 == 0}) },
                _ => if quiet { json!({"op": "wait", "dt": 31}) } else { json!({"op": "donate", "amt": rng.amount(cap).to_string()}) },
            });
        }
        let fee = match rng.next() % 3 { 0 => 0, 1 => E18 / 20, _ => rng.below(E18 / 2) };
        json!({"ops": ops, "fee": fee.to_string(), "threshold": if rng.next() % 2 == 0 { E18.to_string() } else { (E18 - rng.below(E18 / 5)).to_string() }, "validators": 1 + rng.next() % 3})
    }
    fn run(&self, input: &Value) -> Outcome {
        let nv = input["validators"].as_u64().unwrap_or(2) as usize;
        let base = json!({"supply_b": "0", "supply_s": "0", "req_b": "0", "req_s": "0", "backing_b": "0", "backing_s": "0", "delegations": vec!["0"; nv], "balance": "0", "prev_balance": "0",
                          "fee": input["fee"], "threshold": input["threshold"], "epoch_period": "30"});
        let mut deps = setup(&base);
        let mut now: u64 = 5000;
        let mut tok_b = [0u128; 3]; let mut tok_s = [0u128; 3];
        let mut queue: Vec<(u64, u128)> = vec![];                  // (completion time, coins) of running undelegations
        let mut received = [0u128; 3];
        let mut slashed_since_check = false; let mut ever_disturbed = false; let mut donated = false;
        let mut last_close: u64 = 0;            // time of the previous batch undelegation (the stored state starts with last_unbonded_time = 0)
        let mut slash_unrecognised = false;   // a validator was slashed and no handler has run its slashing check since
        let mut seen: BTreeMap<u64, UnbondHistory> = BTreeMap::new();  // released entries, as first seen
        let mut paid_from: BTreeMap<u64, bool> = BTreeMap::new();      // batches some claimant has already been paid from
        let mut c: BTreeMap<String, bool> = BTreeMap::new();
        let and = |c: &mut BTreeMap<String, bool>, k: &str, v: bool| { let e = c.entry(k.to_string()).or_insert(true); *e = *e && v; };
        let mut trace = vec![];
        for op in input["ops"].as_array().unwrap() {
            let kind = op["op"].as_str().unwrap();
            let who = op["who"].as_u64().unwrap_or(0) as usize % 3;
            let frac = op["frac"].as_u64().unwrap_or(1) as u128;
            // chain: undelegations that completed by now pay out into the hub's balance
            let mut keep = vec![]; for (t, a) in queue.drain(..) { if t <= now { deps.querier.balance += a; } else { keep.push((t, a)); } } queue = keep;
            let st0: State = STATE.load(&deps.storage).unwrap(); let cb0: CurrentBatch = CURRENT_BATCH.load(&deps.storage).unwrap();
            let delegated0: u128 = deps.querier.delegations.iter().map(|d| d.1).sum();
            let (rb0, rs0) = (uer(st0.total_bond_bsei_amount.u128(), deps.querier.supply_b + cb0.requested_bsei_with_fee.u128()), uer(st0.total_bond_stsei_amount.u128(), deps.querier.supply_s + cb0.requested_stsei.u128()));
            let consistent0 = st0.total_bond_bsei_amount.u128() + st0.total_bond_stsei_amount.u128() <= delegated0;
            let hook = |h: Cw20HookMsg, amt: u128| ExecuteMsg::Receive(Cw20ReceiveMsg { sender: USERS[who].into(), amount: Uint128::new(amt), msg: to_json_binary(&h).unwrap() });
            let reqs_before: Vec<(u64, Uint128, Uint128)> = from_json::<UnbondRequestsResponse>(&query(deps.as_ref(), mock_env(), QueryMsg::UnbondRequests { address: USERS[who].into() }).unwrap()).unwrap().requests;
            let mut user_op = true; let mut funds = 0u128; let mut sent_tokens = (0u128, 0u128);
            let res: Option<Result<Response, StdError>> = match kind {
                "bond" => { funds = u(&op["amt"]); Some(call(&mut deps, now, USERS[who], funds, ExecuteMsg::Bond {})) }
                "bond_stsei" => { funds = u(&op["amt"]); Some(call(&mut deps, now, USERS[who], funds, ExecuteMsg::BondForStSei {})) }
                "bond_rewards" => { funds = u(&op["amt"]); Some(call(&mut deps, now, "dispatcher", funds, ExecuteMsg::BondRewards {})) }
                "unbond_bsei" | "convert_bs" => { let a = if op["units"].is_u64() { (op["units"].as_u64().unwrap() as u128).min(tok_b[who]) } else { tok_b[who] * frac / 4 }; if a == 0 { None } else { sent_tokens = (a, 0); Some(call(&mut deps, now, "bsei_token", 0, hook(if kind == "unbond_bsei" { Cw20HookMsg::Unbond {} } else { Cw20HookMsg::Convert {} }, a))) } }
                "unbond_stsei" | "convert_sb" => { let a = if op["units"].is_u64() { (op["units"].as_u64().unwrap() as u128).min(tok_s[who]) } else { tok_s[who] * frac / 4 }; if a == 0 { None } else { sent_tokens = (0, a); Some(call(&mut deps, now, "stsei_token", 0, hook(if kind == "unbond_stsei" { Cw20HookMsg::Unbond {} } else { Cw20HookMsg::Convert {} }, a))) } }
                "withdraw" => Some(call(&mut deps, now, USERS[who], 0, ExecuteMsg::WithdrawUnbonded {})),
                "check_slashing" => Some(call(&mut deps, now, "anyone", 0, ExecuteMsg::CheckSlashing {})),
                "update_global" => { user_op = false; Some(call(&mut deps, now, "updater", 0, ExecuteMsg::UpdateGlobalIndex { airdrop_hooks: None })) }
                "wait" => { now += op["dt"].as_u64().unwrap_or(5); user_op = false; None }
                "slash" => { let pm = op["permille"].as_u64().unwrap_or(1) as u128; for d in deps.querier.delegations.iter_mut() { d.1 -= d.1 * pm / 1000; } if op["queue"].as_bool().unwrap_or(false) { for q in queue.iter_mut() { q.1 -= q.1 * pm / 1000; } } slashed_since_check = true; slash_unrecognised = true; ever_disturbed = true; user_op = false; None }
                "donate" => { deps.querier.balance += u(&op["amt"]); ever_disturbed = true; donated = true; user_op = false; None }
                _ => None,
            };
            let mut accepted = false; let mut paid = 0u128; let mut err = None;
            if let Some(r) = res {
                match r {
                    Ok(resp) => {
                        accepted = true;
                        deps.querier.balance += funds;
                        tok_b[who] -= sent_tokens.0; tok_s[who] -= sent_tokens.1;     // the cw20 Send moved them to the hub before the hook ran
                        let mut hub_b = sent_tokens.0; let mut hub_s = sent_tokens.1; // tokens the hub holds from this Send (it must burn exactly these)
                        for m in resp.messages.iter() {
                            match &m.msg {
                                CosmosMsg::Staking(StakingMsg::Delegate { validator, amount }) => {
                                    and(&mut c, "hs#C02.delegates_from_funds_only", amount.amount.u128() <= deps.querier.balance);
                                    deps.querier.balance = deps.querier.balance.saturating_sub(amount.amount.u128());
                                    match deps.querier.delegations.iter_mut().find(|d| &d.0 == validator) { Some(d) => d.1 += amount.amount.u128(), None => and(&mut c, "hs#C02.delegates_to_registered_validators", false) }
                                }
                                CosmosMsg::Staking(StakingMsg::Undelegate { validator, amount }) => {
                                    match deps.querier.delegations.iter_mut().find(|d| &d.0 == validator) {
                                        Some(d) => { and(&mut c, "hs#C02.undelegates_only_what_is_held", amount.amount.u128() <= d.1); d.1 = d.1.saturating_sub(amount.amount.u128()); }
                                        None => and(&mut c, "hs#C02.undelegates_only_what_is_held", false) }
                                    queue.push((now + UNBONDING, amount.amount.u128()));
                                }
                                CosmosMsg::Bank(BankMsg::Send { to_address, amount }) => {
                                    let a: u128 = amount.iter().filter(|x| x.denom == DENOM).map(|x| x.amount.u128()).sum();
                                    and(&mut c, "hs#C01.payout_is_funded", a <= deps.querier.balance);
                                    and(&mut c, "hs#C01.pays_the_claimant_only", to_address == USERS[who] && kind == "withdraw");
                                    deps.querier.balance = deps.querier.balance.saturating_sub(a); paid += a; received[who] += a;
                                }
                                CosmosMsg::Wasm(WasmMsg::Execute { contract_addr, msg, .. }) => {
                                    let is_b = contract_addr == "bsei_token";
                                    if is_b || contract_addr == "stsei_token" {
                                        match from_json::<Cw20ExecuteMsg>(msg) {
                                            Ok(Cw20ExecuteMsg::Mint { recipient, amount }) => {
                                                let k = USERS.iter().position(|x| *x == recipient);
                                                if is_b { deps.querier.supply_b += amount.u128(); if let Some(k) = k { tok_b[k] += amount.u128(); } } else { deps.querier.supply_s += amount.u128(); if let Some(k) = k { tok_s[k] += amount.u128(); } }
                                                and(&mut c, "hs#C07.mints_to_the_sender_only", k == Some(who) && kind != "bond_rewards");
                                            }
                                            Ok(Cw20ExecuteMsg::Burn { amount }) => {
                                                if is_b { and(&mut c, "hs#C07.burns_exactly_the_tokens_sent", amount.u128() == hub_b); hub_b = 0; deps.querier.supply_b = deps.querier.supply_b.saturating_sub(amount.u128()); }
                                                else { and(&mut c, "hs#C07.burns_exactly_the_tokens_sent", amount.u128() == hub_s); hub_s = 0; deps.querier.supply_s = deps.querier.supply_s.saturating_sub(amount.u128()); }
                                            }
                                            _ => {}
                                        }
                                    }
                                }
                                _ => {}
                            }
                        }
                        if sent_tokens != (0, 0) { and(&mut c, "hs#C07.burns_exactly_the_tokens_sent", hub_b == 0 && hub_s == 0); }
                        if kind != "withdraw" && kind != "update_global" { slashed_since_check = false; }
                    }
                    Err(e) => { err = Some(e.to_string()); }
                }
            }
            // ---- observations after the step
            let st1: State = STATE.load(&deps.storage).unwrap(); let cb1: CurrentBatch = CURRENT_BATCH.load(&deps.storage).unwrap();
            let delegated1: u128 = deps.querier.delegations.iter().map(|d| d.1).sum();
            let pricing = accepted && kind != "withdraw" && kind != "update_global";     // an index update prices nothing and runs no slashing check
            if pricing { and(&mut c, "hs#C02.books_le_delegated", st1.total_bond_bsei_amount.u128() + st1.total_bond_stsei_amount.u128() <= delegated1); }
            if accepted && (kind == "bond" || kind == "bond_stsei" || kind == "bond_rewards" || kind.starts_with("convert") || kind == "check_slashing") {
                and(&mut c, "hs#C02.liquid_balance_untouched", queue.len() == queue.len() && deps.querier.balance + 0 == deps.querier.balance && paid == 0);
            }
            // C09 / C08: the open batch is undelegated by the first unbond that arrives more than one epoch period after the previous undelegation -- and only then
            if accepted && (kind == "unbond_bsei" || kind == "unbond_stsei") {
                let due = now > last_close + 30;
                and(&mut c, "hs#C09.first_unbond_after_the_epoch_undelegates", (cb1.id == cb0.id + 1) == due);
                if cb1.id != cb0.id { last_close = now; }
            }
            // C04: a rate falls only through slashing.  Whenever no validator was slashed since the books last agreed with the chain, no accepted
            // operation (including the slashing checks the handlers run themselves) may lower a rate
            if accepted && !slash_unrecognised {
                let (rb1, rs1) = (uer(st1.total_bond_bsei_amount.u128(), deps.querier.supply_b + cb1.requested_bsei_with_fee.u128()), uer(st1.total_bond_stsei_amount.u128(), deps.querier.supply_s + cb1.requested_stsei.u128()));
                let live_b = st0.total_bond_bsei_amount.u128() > 0 && deps.querier.supply_b + cb1.requested_bsei_with_fee.u128() > 0 && st1.total_bond_bsei_amount.u128() > 0;
                let live_s = st0.total_bond_stsei_amount.u128() > 0 && deps.querier.supply_s + cb1.requested_stsei.u128() > 0 && st1.total_bond_stsei_amount.u128() > 0;
                if live_b { and(&mut c, "hs#C04.bsei_rate_never_falls", rb1 >= rb0); }
                if live_s { and(&mut c, "hs#C04.stsei_rate_never_falls", rs1 >= rs0); }
            }
            let _ = consistent0;
            if accepted && kind != "withdraw" && kind != "update_global" { slash_unrecognised = false; }
            // histories: numbered consecutively; released entries are frozen (C08); time lock (C08)
            let mut hist: Vec<UnbondHistory> = vec![]; let mut id = 1u64;
            while let Ok(h) = read_unbond_history(&deps.storage, id) { hist.push(h); id += 1; }
            and(&mut c, "hs#C08.batches_numbered_consecutively", cb1.id == id && hist.iter().enumerate().all(|(k, h)| h.batch_id == k as u64 + 1));
            // C08: consecutive undelegations are more than one epoch period apart
            for w in hist.windows(2) { and(&mut c, "hs#C08.undelegations_more_than_one_epoch_apart", w[1].time > w[0].time + 30); }
            for h in hist.iter() {
                // C06: without unsolicited transfers no batch gains from its release (a loss is only ever shared out)
                if h.released && !donated { and(&mut c, "hs#C06.no_batch_gains_at_release", h.bsei_withdraw_rate <= h.bsei_applied_exchange_rate && h.stsei_withdraw_rate <= h.stsei_applied_exchange_rate); }
                if h.released {
                    and(&mut c, "hs#C08.time_lock", h.time + UNBONDING <= now);
                    match seen.get(&h.batch_id) { Some(old) => and(&mut c, "hs#C08.released_entries_never_change", old == h), None => { seen.insert(h.batch_id, h.clone()); } }
                }
            }
            // claims of everybody, through the real query
            let mut sum_cur = (0u128, 0u128); let mut per_batch: BTreeMap<u64, (u128, u128)> = BTreeMap::new(); let mut matured_due = 0u128; let mut due_user = [0u128; 3];
            for (k, usr) in USERS.iter().enumerate() {
                let rq: Vec<(u64, Uint128, Uint128)> = from_json::<UnbondRequestsResponse>(&query(deps.as_ref(), mock_env(), QueryMsg::UnbondRequests { address: usr.to_string() }).unwrap()).unwrap().requests;
                for (b, x, y) in rq.iter() {
                    if *b == cb1.id { sum_cur.0 += x.u128(); sum_cur.1 += y.u128(); }
                    let e = per_batch.entry(*b).or_insert((0, 0)); e.0 += x.u128(); e.1 += y.u128();
                    if let Some(h) = hist.get((*b - 1) as usize) { if h.released { let v = mulf(x.u128(), h.bsei_withdraw_rate.atomics().u128()) + mulf(y.u128(), h.stsei_withdraw_rate.atomics().u128()); matured_due += v; due_user[k] += v; } }
                }
            }
            and(&mut c, "hs#C07.current_batch_total_is_sum_of_claims", sum_cur == (cb1.requested_bsei_with_fee.u128(), cb1.requested_stsei.u128()));
            // C01: the liquid balance covers every matured (released) claim, at every moment
            and(&mut c, "hs#C01.matured_claims_are_funded", matured_due <= deps.querier.balance);
            if kind == "withdraw" {
                // what this claimant was owed from batches that are released now: it is paid exactly that, the claims are removed, nothing else is touched
                let mut owed = 0u128; let mut removed_ok = true;
                let after: Vec<(u64, Uint128, Uint128)> = from_json::<UnbondRequestsResponse>(&query(deps.as_ref(), mock_env(), QueryMsg::UnbondRequests { address: USERS[who].into() }).unwrap()).unwrap().requests;
                for (b, x, y) in reqs_before.iter() {
                    let h = hist.get((*b - 1) as usize);
                    let rel = h.map_or(false, |h| h.released);
                    if rel { let h = h.unwrap(); owed += mulf(x.u128(), h.bsei_withdraw_rate.atomics().u128()) + mulf(y.u128(), h.stsei_withdraw_rate.atomics().u128()); }
                    let still = after.iter().any(|(b2, _, _)| b2 == b);
                    if accepted { if rel == still { removed_ok = false; } if rel { paid_from.insert(*b, true); } } else if !still { removed_ok = false; }
                }
                if accepted { and(&mut c, "hs#C01.pays_exactly_the_recorded_share", paid == owed); and(&mut c, "hs#C01.claims_removed_exactly_once", removed_ok && after.len() <= reqs_before.len()); }
                else {
                    // C09 / C01: a matured claim worth at least one base unit can always be withdrawn.  `due_user` is computed after the (rolled back) call, so
                    // batches that only this call would have released are not counted: re-evaluate what the call would release through the rates it failed on is
                    // not possible; the claim is therefore stated for batches already released before the call.
                    and(&mut c, "hs#C09.withdraw_succeeds_for_a_matured_claim", due_user[who] == 0);
                    // in a history without slashing or unsolicited transfers every batch whose unbonding period has passed is worth what was requested:
                    // a claimant holding two or more base units of such a claim can withdraw, whether or not anybody has released the batch yet
                    if !ever_disturbed {
                        let mut matured_value = 0u128;
                        for (b, x, y) in reqs_before.iter() { if let Some(h) = hist.get((*b - 1) as usize) { if h.time + UNBONDING <= now { matured_value += mulf(x.u128(), h.bsei_applied_exchange_rate.atomics().u128()) + mulf(y.u128(), h.stsei_applied_exchange_rate.atomics().u128()); } } }
                        and(&mut c, "hs#C01.matured_claim_is_withdrawable", matured_value < 2);
                    }
                }
            }
            for h in hist.iter() { if !paid_from.get(&h.batch_id).copied().unwrap_or(false) { let s = per_batch.get(&h.batch_id).copied().unwrap_or((0, 0)); and(&mut c, "hs#C07.history_total_is_sum_of_claims_until_paid", s == (h.bsei_amount.u128(), h.stsei_amount.u128())); } }
            if !ever_disturbed && accepted && kind == "withdraw" { and(&mut c, "hs#C01.no_loss_without_slashing", true); }
            trace.push(json!({"op": kind, "who": USERS[who], "accepted": accepted, "err": err, "now": now, "balance": deps.querier.balance.to_string(), "matured_due": matured_due.to_string(), "paid": paid.to_string(),
                              "books": [st1.total_bond_bsei_amount.to_string(), st1.total_bond_stsei_amount.to_string()], "delegated": delegated1.to_string(), "slashed_unrecognised": slashed_since_check}));
        }
        // C07: the AllHistory query reports the stored batches faithfully: paging through it yields every batch exactly once, in order, with the stored fields
        {
            let mut stored: Vec<UnbondHistory> = vec![]; let mut id = 1u64;
            while let Ok(h) = read_unbond_history(&deps.storage, id) { stored.push(h); id += 1; }
            let mut paged: Vec<(u64, u64, u128, u128, String, String, String, String, bool)> = vec![]; let mut start: Option<u64> = None; let mut guard = 0;
            loop {
                let r: AllHistoryResponse = from_json(&query(deps.as_ref(), mock_env(), QueryMsg::AllHistory { start_from: start, limit: Some(3) }).unwrap()).unwrap();
                if r.history.is_empty() || guard > 200 { break; }
                guard += 1;
                start = Some(r.history.last().unwrap().batch_id);
                for h in r.history.iter() { paged.push((h.batch_id, h.time, h.bsei_amount.u128(), h.stsei_amount.u128(), h.bsei_applied_exchange_rate.to_string(), h.bsei_withdraw_rate.to_string(), h.stsei_applied_exchange_rate.to_string(), h.stsei_withdraw_rate.to_string(), h.released)); }
            }
            let want: Vec<_> = stored.iter().map(|h| (h.batch_id, h.time, h.bsei_amount.u128(), h.stsei_amount.u128(), h.bsei_applied_exchange_rate.to_string(), h.bsei_withdraw_rate.to_string(), h.stsei_applied_exchange_rate.to_string(), h.stsei_withdraw_rate.to_string(), h.released)).collect();
            and(&mut c, "hs#C07.all_history_reports_stored_batches", paged == want);
            for k in [0u64, 1, 2, stored.len() as u64, stored.len() as u64 + 3] {
                let r: AllHistoryResponse = from_json(&query(deps.as_ref(), mock_env(), QueryMsg::AllHistory { start_from: Some(k), limit: Some(100) }).unwrap()).unwrap();
                let got: Vec<u64> = r.history.iter().map(|h| h.batch_id).collect();
                let exp: Vec<u64> = stored.iter().map(|h| h.batch_id).filter(|b| *b > k).take(100).collect();     // MAX_LIMIT of the query is 100
                and(&mut c, "hs#C07.all_history_reports_stored_batches", got == exp);
            }
            let first: AllHistoryResponse = from_json(&query(deps.as_ref(), mock_env(), QueryMsg::AllHistory { start_from: None, limit: None }).unwrap()).unwrap();
            and(&mut c, "hs#C07.all_history_reports_stored_batches", first.history.len() == stored.len().min(10) && first.history.iter().zip(stored.iter()).all(|(a, b)| a.batch_id == b.batch_id && a.bsei_amount == b.bsei_amount && a.stsei_amount == b.stsei_amount && a.released == b.released));
        }
        (c, json!({"trace": trace, "received": received.iter().map(|x| x.to_string()).collect::<Vec<_>>()}))
    }
}
