#!/usr/bin/env python3
"""tools/tagdeps.py [units...]  -- contract dependency analysis (run by hand, result committed as units/tagdeps.json).

Verification is modular: a property's clauses on a handler are proved from the *contracts* of its callees.  A change inside a
callee is therefore noticed only as a failure of the callee's own clause -- which must then count for every property whose
proof used that clause.  This tool finds those uses mechanically: for each named `ensures` clause X of a function that other
extracted functions call, it blanks X (replaces it by `true`) and re-verifies the direct callers; every caller clause / body
obligation that stops verifying depends on X.  The transitive closure over these edges gives, for each clause, the set of
properties that rely on it; `check` adds those properties to the clause's own tags."""
import os, sys, json, re, subprocess, concurrent.futures as cf, tempfile, shutil
VERIF = os.path.dirname(os.path.dirname(os.path.abspath(__file__)))
sys.path.insert(0, os.path.join(VERIF, 'tools'))
import runner, extract

def analyse(unit, workers=12, only=None):
    path, meta = extract.build_unit(unit, '/repo', VERIF, os.path.join(VERIF, 'build'))
    text = open(path).read().split('\n')
    fns = {f['name']: f for f in meta['functions'] if f.get('kind') == 'fn' and not f.get('assumed')}
    calls = {}
    for n, f in fns.items():
        body = '\n'.join(text[f['out_line0'] - 1:f['out_line1']])
        calls[n] = set(m for m in fns if m != n and re.search(r'(?<![\w])' + re.escape(m) + r'\s*\(', body))
    callers = {g: sorted(n for n in fns if g in calls[n]) for g in fns}
    jobs = []
    for c in meta['clauses']:
        if c['kind'] != 'ensures' or c['fn'] not in fns or not callers.get(c['fn']): continue
        if only is not None and c['name'] not in only: continue
        jobs.append(c)
    print(unit, 'clauses to analyse:', len(jobs), file=sys.stderr)
    wd = os.path.join(VERIF, 'build', 'tagdeps-' + unit); shutil.rmtree(wd, ignore_errors=True); os.makedirs(wd)
    def extent(c):
        """exact extent of the clause expression: from its first line to the `,` that closes it at bracket depth 0"""
        k = c['lines'][0] - 1; depth = 0; binder = False
        while k < len(text):
            line = text[k]
            for j, ch in enumerate(line):
                if binder:
                    if ch == '|': binder = False
                    continue
                if ch == '|' and re.search(r'(forall|exists|choose)\s*$', line[:j]): binder = True; continue
                if ch in '([{': depth += 1
                elif ch in ')]}': depth -= 1
                elif ch == ',' and depth == 0:
                    return (c['lines'][0] - 1, k, j)
            k += 1
            if k - c['lines'][0] > 80: break
        return None
    def run(c):
        t = list(text)
        ext = extent(c)
        if ext is None: return c['name'], [], ['clause extent not found']
        a, b, col = ext
        rest = t[b][col + 1:]
        for k in range(a, b + 1): t[k] = ''
        t[a] = '    true,' + rest
        d = os.path.join(wd, re.sub(r'\W', '_', c['name'])); os.makedirs(d, exist_ok=True)
        p = os.path.join(d, unit + '.rs'); open(p, 'w').write('\n'.join(t))
        needed = set(); notes = []
        for caller in callers[c['fn']]:
            r = runner.run_verus(p, rlimit=80, extra=['--verify-root', '--verify-function', caller])
            cl = runner.classify(meta, r, p)
            if cl['compile_errors']: notes.append('compile error for caller %s: %s' % (caller, cl['compile_errors'][:1])); continue
            for y in cl['failed_clauses']:
                needed.add(y)
            for f in list(cl['body_fail']): needed.add(f + '#BODY:semantic')
            for f in list(cl['support_fail']): needed.add(f + '#BODY:support')
            for f in list(cl['abort_fail']): needed.add(f + '#BODY:abort')
        shutil.rmtree(d, ignore_errors=True)
        return c['name'], sorted(needed), notes
    res = {}
    with cf.ThreadPoolExecutor(max_workers=workers) as ex:
        for name, needed, notes in ex.map(run, jobs):
            res[name] = dict(needed_by=needed, notes=notes)
            print(name, '->', needed, notes, file=sys.stderr, flush=True)
    shutil.rmtree(wd, ignore_errors=True)
    return meta, res

def main():
    args = sys.argv[1:]
    redo = '--redo-noted' in args        # only re-analyse clauses whose last analysis ended with a note (compile error)
    closure_only = '--closure-only' in args
    only_names = set(sum((a[7:].split(',') for a in args if a.startswith('--only=')), []))
    units = [a for a in args if not a.startswith('--')] or ['reg_common', 'hub', 'reward', 'dispatcher', 'registry', 'tokens']
    out_path = os.path.join(VERIF, 'units', 'tagdeps.json')
    out = json.load(open(out_path)) if os.path.exists(out_path) else {}
    for u in units:
        if closure_only:
            path, meta = extract.build_unit(u, '/repo', VERIF, os.path.join(VERIF, 'build'))
            res = {x: dict(needed_by=r['needed_by'], notes=r['notes']) for x, r in out.get(u, {}).items()}
        elif redo or only_names:
            only = set(x for x, r in out.get(u, {}).items() if r['notes']) | only_names
            meta, res2 = analyse(u, only=only)
            res = {x: dict(needed_by=r['needed_by'], notes=r['notes']) for x, r in out.get(u, {}).items()}
            res.update(res2)
        else:
            meta, res = analyse(u)
        tags = {c['name']: set(c['props']) for c in meta['clauses']}
        # a body obligation of caller f that stops verifying (an invariant, a hint) may carry any of f's clauses proved after it; clauses that
        # only state a rejection (authorisation, pause, `==> res is Err`) are decided before any callee result matters and are left out;
        # a no-abort obligation matters to the properties for which f has a no-abort obligation (success closure, computed by check)
        utext = open(meta['path']).read().split('\n')
        REJ = re.compile(r'rejected|_only\b|owner_only|nominee|paused|err_changes_nothing|unauthori|#C10\.|#C11\.')
        fn_props = {}
        for c in meta['clauses']:
            ctext = '\n'.join(utext[c['lines'][0] - 1:c['lines'][1]])
            if REJ.search(c['name']) or re.search(r'==>\s*\(?\s*res is Err', ctext): continue
            fn_props.setdefault(c['fn'], set()).update(c['props'])
        # closure: props(X) = tags(X) U props(Y) for every Y that needs X; a `fn#BODY` dependant stands for all properties of fn
        props = {k: set(v) for k, v in tags.items()}
        changed = True
        while changed:
            changed = False
            for x, r in res.items():
                for y in r['needed_by']:
                    # only named clauses carry a dependency: `P-clause Y of a caller cannot be proved without X`.  Body obligations of the caller
                    # that stop verifying (invariants, hints, panic conditions) are recorded in needed_by but attribute nothing: they would
                    # spread X over every property of the caller
                    if '#BODY:' in y: continue
                    add = props.get(y, set())
                    if not add <= props[x]: props[x] |= add; changed = True
        out[u] = {x: dict(needed_by=r['needed_by'], extra_props=sorted(props[x] - tags[x]), notes=r['notes']) for x, r in res.items()}
        json.dump(out, open(out_path, 'w'), indent=1, sort_keys=True)
    n = sum(1 for u in out for x in out[u] if out[u][x]['extra_props'])
    print('clauses with additional dependent properties:', n)

if __name__ == '__main__':
    main()
