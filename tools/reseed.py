#!/usr/bin/env python3
"""tools/reseed.py [ids...] -- run the property's check against every kept seeded change (scratch export of /repo HEAD + patch.diff,
nothing touches /repo) and record what detected it in seeded/<id>/meta.json ('detection')."""
import os, sys, json, re, subprocess, shutil, hashlib, glob
VERIF = os.path.dirname(os.path.dirname(os.path.abspath(__file__)))
ids = sys.argv[1:] or sorted(os.path.basename(d.rstrip('/')) for d in glob.glob(os.path.join(VERIF, 'seeded', '*/')))
summary = []
for sid in ids:
    d = os.path.join(VERIF, 'seeded', sid)
    pid = re.search(r'C\d\d', sid).group(0)
    M = '/tmp/mrepo_rs_%s_%d' % (sid, os.getpid())
    shutil.rmtree(M, ignore_errors=True); os.makedirs(M)
    subprocess.run('cd /repo && git archive HEAD | tar -x -C %s; cp /repo/Cargo.lock %s/ 2>/dev/null' % (M, M), shell=True)
    r = subprocess.run('cd %s && patch -p1 -s < %s/patch.diff' % (M, d), shell=True)
    if r.returncode: summary.append((sid, 'patch failed')); continue
    p = subprocess.run([os.path.join(VERIF, 'check'), pid], env=dict(os.environ, VERIF_REPO=M), capture_output=True, text=True)
    lines = p.stdout.strip().split('\n')
    viol = []
    for l in lines:
        m = re.match(r'VIOLATION property=(\S+) replay=(\S+)(.*)$', l)
        if m:
            viol.append(dict(obligation=os.path.basename(m.group(2))[:-5], concrete_failing_input=('no-failing-input-found' not in m.group(3))))
    det = dict(check='./check ' + pid, exit=p.returncode, result=lines[-1] if lines else '', violations=viol,
               undecided=[l[:300] for l in lines if l.startswith('UNDECIDED')])
    mp = os.path.join(d, 'meta.json')
    meta = json.load(open(mp)) if os.path.exists(mp) else {}
    if not meta and os.path.exists(os.path.join(d, 'agent_meta.json')):
        meta = json.load(open(os.path.join(d, 'agent_meta.json')))
        meta['property'] = pid
        meta['origin'] = 'written by an independent sub-agent that saw only the property text and a scratch worktree of /repo (nothing from /verif)'
        cf = os.path.join(d, 'confirmed.json')
        if os.path.exists(cf): meta['confirmed'] = json.load(open(cf))
    meta['detection'] = det
    json.dump(meta, open(mp, 'w'), indent=1)
    tag = hashlib.sha256(os.path.realpath(M).encode()).hexdigest()[:10]
    shutil.rmtree(M, ignore_errors=True)
    for x in ('alt-', 'target-', 'replay_crate-'): shutil.rmtree(os.path.join(VERIF, 'build', x + tag), ignore_errors=True)
    try: os.remove(os.path.join(VERIF, 'build', 'bin', 'krp-replay-' + tag))
    except OSError: pass
    summary.append((sid, 'exit %d' % p.returncode, [v['obligation'] + ('' if v['concrete_failing_input'] else ' (no input)') for v in viol]))
    print(summary[-1], flush=True)
