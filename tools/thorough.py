"""Thorough-tier extras (DESIGN.md section 8/9): vacuity probes, solver-seed stability, larger replay searches."""
import os, sys, json, time
V = os.path.dirname(os.path.dirname(os.path.abspath(__file__)))
sys.path.insert(0, os.path.join(V, 'tools'))
import runner, probe as probemod, replaylib

def run(pid, cfg, results, seed):
    extra = {}; lines = []; rc = 0
    # 1. reachability probe behind every precondition: `assert(false)` at body start must fail
    pr = {}
    for u in results:
        r = probemod.probe(u, os.environ.get('VERIF_REPO'))
        pr[u] = r
        if r.get('error') or r.get('vacuous'):
            rc = 2; lines.append('UNDECIDED: vacuity probe: unit %s: %s' % (u, r))
    extra['vacuity_probes'] = pr
    # 2. stability: every unit again with two more Z3 seeds at 4x rlimit; a clause failing only under some seed is 'unstable', not a violation
    stab = {}
    for u, r in results.items():
        path = r['meta']['path']
        st = []
        for sd in (11 + seed, 1009 + seed):
            t0 = time.time()
            rr = runner.run_verus(path, rlimit=160, seed=sd)
            cl = runner.classify(r['meta'], rr, path)
            st.append(dict(seed=sd, wall_s=round(time.time() - t0, 1), failed=sorted(set(cl['failed_clauses']) | set(cl['failed_lemmas']) | set(cl['body_fail'])), rlimit=len(cl['rlimit'])))
        stab[u] = st
    extra['stability'] = stab
    base_failed = set()
    for u, r in results.items():
        base_failed |= set(r['failed_clauses']) | set(r['failed_lemmas']) | set(r['body_fail'])
    unstable = sorted(set(x for u in stab for s in stab[u] for x in s['failed']) - base_failed)
    extra['unstable_under_other_seeds'] = unstable
    # 3. A3: shim arithmetic contracts against the real libraries (testing an assumption, not proving it)
    r = replaylib.search('shim_arith', seed + 3, 300000)
    extra['shim_arith_conformance'] = dict(tries=r.get('tries'), disagreement=r.get('input') if r.get('found') else None, failed=r.get('failed'))
    if r.get('found'):
        rc = 2; lines.append('UNDECIDED: shim arithmetic contract disagrees with the library: %s %s' % (r.get('failed'), r.get('input')))
    return extra, rc, lines
