"""Thorough-tier extras (DESIGN.md section 8/9): vacuity probes, solver-seed stability, larger replay searches."""
import os, sys, json, time, hashlib
V = os.path.dirname(os.path.dirname(os.path.abspath(__file__)))
sys.path.insert(0, os.path.join(V, 'tools'))
import runner, probe as probemod, replaylib

def run(pid, cfg, results, seed):
    extra = {}; lines = []; rc = 0
    # 1. reachability probe behind every precondition: `assert(false)` at body start must fail
    # per-unit results are cached on the generated text (like the quick tier), so properties sharing a unit pay once
    cdir = os.path.join(runner.BUILD_ROOT, 'cache'); os.makedirs(cdir, exist_ok=True)
    def cached(kind, u, fn):
        cp = os.path.join(cdir, 'thorough-%s-%s-%s-%d.json' % (kind, u, results[u].get('key', 'x'), seed))
        if os.path.exists(cp) and not os.environ.get('VERIF_NOCACHE'):
            return json.load(open(cp))
        v = fn()
        if not (isinstance(v, dict) and v.get('error')): json.dump(v, open(cp, 'w'))
        return v
    pr = {}
    for u in results:
        r = cached('probe', u, lambda: probemod.probe(u, os.environ.get('VERIF_REPO')))
        pr[u] = r
        if r.get('error') or r.get('vacuous'):
            rc = 2; lines.append('UNDECIDED: vacuity probe: unit %s: %s' % (u, r))
    extra['vacuity_probes'] = pr
    # 2. stability: every unit again with two more Z3 seeds at 4x rlimit; a clause failing only under some seed is 'unstable', not a violation
    stab = {}
    for u, r in results.items():
        path = r['meta']['path']
        def stab_run(r=r, path=path):
            st = []
            for sd in (11 + seed, 1009 + seed):
                t0 = time.time()
                rr = runner.run_verus(path, rlimit=160, seed=sd)
                cl = runner.classify(r['meta'], rr, path)
                st.append(dict(seed=sd, wall_s=round(time.time() - t0, 1), failed=sorted(set(cl['failed_clauses']) | set(cl['failed_lemmas']) | set(cl['body_fail'])), rlimit=len(cl['rlimit'])))
            return st
        stab[u] = cached('stab', u, stab_run)
    extra['stability'] = stab
    base_failed = set()
    for u, r in results.items():
        base_failed |= set(r['failed_clauses']) | set(r['failed_lemmas']) | set(r['body_fail'])
    unstable = sorted(set(x for u in stab for s in stab[u] for x in s['failed']) - base_failed)
    extra['unstable_under_other_seeds'] = unstable
    # 3. A3: shim arithmetic contracts against the real libraries (testing an assumption, not proving it)
    def arith():
        r = replaylib.search('shim_arith', seed + 3, 300000)
        return dict(tries=r.get('tries'), found=bool(r.get('found')), input=r.get('input'), failed=r.get('failed'), error=r.get('error'))
    tag = hashlib.sha256(open(os.path.join(V, 'replay', 'src', 'd_misc.rs')).read().encode()).hexdigest()[:10]
    cp = os.path.join(cdir, 'thorough-arith-%s-%s-%d.json' % (tag, 'main' if not os.environ.get('VERIF_REPO') else hashlib.sha256(os.path.realpath(os.environ['VERIF_REPO']).encode()).hexdigest()[:10], seed))
    if os.path.exists(cp) and not os.environ.get('VERIF_NOCACHE') and not os.environ.get('VERIF_REPO'): r = json.load(open(cp))
    else:
        r = arith()
        if not r.get('error') and not os.environ.get('VERIF_REPO'): json.dump(r, open(cp, 'w'))
    extra['shim_arith_conformance'] = dict(tries=r.get('tries'), disagreement=r.get('input') if r.get('found') else None, failed=r.get('failed'))
    if r.get('found'):
        rc = 2; lines.append('UNDECIDED: shim arithmetic contract disagrees with the library: %s %s' % (r.get('failed'), r.get('input')))
    return extra, rc, lines
