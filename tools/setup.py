#!/usr/bin/env python3
"""setup: nothing is fetched.  Warm the Verus cache-independent pieces: build the replay crate once
(offline) so that the first check does not pay for it, and verify tools are present."""
import os, sys, shutil, subprocess
V = os.path.dirname(os.path.dirname(os.path.abspath(__file__)))
sys.path.insert(0, os.path.join(V, 'tools'))
os.makedirs(os.path.join(V, 'build'), exist_ok=True)
os.makedirs(os.path.join(V, 'evidence'), exist_ok=True)
os.makedirs(os.path.join(V, 'replays'), exist_ok=True)
if not shutil.which('verus'):
    print('verus not on PATH'); sys.exit(1)
import replaylib
b = replaylib.build()
print('replay binary:', b)
if not b:
    print(replaylib._built.get('err'))
    sys.exit(1)
