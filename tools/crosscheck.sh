#!/bin/bash
# usage: tools/crosscheck.sh <seed id>  -- run ALL 20 checks against one kept seeded change; prints which properties alarm (precision of attribution)
S=$1; D=/verif/seeded/$S; M=/tmp/mrepo_cc_$S; rm -rf $M; mkdir $M; (cd /repo && git archive HEAD | tar -x -C $M; cp /repo/Cargo.lock $M/ 2>/dev/null)
(cd $M && patch -p1 -s < $D/patch.diff) || { echo "$S patch failed"; exit 3; }
out=""
for i in 01 02 03 04 05 06 07 08 09 10 11 12 13 14 15 16 17 18 19 20; do
  o=$(VERIF_REPO=$M /verif/check C$i 2>&1); rc=$?
  [ $rc -ne 0 ] && out="$out C$i:$rc($(echo "$o" | grep -E 'VIOLATION' | sed 's/.*replay=\/verif\/replays\/C[0-9]*-//; s/\.json.*//' | head -3 | tr '\n' ',' ))"
done
echo "$S ->$out"
T=$(python3 -c "import hashlib,os;print(hashlib.sha256(os.path.realpath('$M').encode()).hexdigest()[:10])")
rm -rf $M /verif/build/alt-$T /verif/build/target-$T /verif/build/replay_crate-$T /verif/build/bin/krp-replay-$T
