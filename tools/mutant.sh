#!/bin/bash
# usage: tools/mutant.sh <file-relative-to-repo> <sed-expr> <PID...>   -- apply a one-line mutant to a scratch copy and run checks
set -e
M=/tmp/mrepo; rm -rf $M; mkdir $M; (cd /repo && git archive HEAD | tar -x -C $M; cp /repo/Cargo.lock $M/ 2>/dev/null)
f=$1; e=$2; shift 2
sed -i "$e" $M/$f
(cd /repo && diff <(git show HEAD:$f) $M/$f | head -6) || true
for p in "$@"; do VERIF_REPO=$M /verif/check $p 2>&1 | grep -v "^  failed\|^KNOWN" | tail -4; done
rm -rf $M
