#!/bin/bash
# usage: tools/vf.sh <unit> [function]   -- extract + verify (one function or the whole unit), filtered output
cd /verif && python3 tools/extract.py $1 || exit 2
cd build
if [ -n "$2" ]; then X="--verify-function $2 --verify-root"; fi
( time verus $1.rs --triggers-mode silent $X 2>&1 ) 2>&1 | grep -v "^warning\|^\s*|\s*$\|help: \|= note: .#.warn\|recommendation\|map.rs\|^note: verifying\|old_wait.dom()\|\^\^\^\^\^\^$\|^user\|^sys\|^$" | head -${3:-60}
