#!/bin/bash
# usage: tools/confirm11.sh <PID>  -- round-11 layout: /tmp/r11-<PID>/out/{patch.diff,demo.diff}; confirm in the agent's worktree, then run ./check <PID> on a scratch export
P=$1; W=/tmp/r11-$P; O=$W/out
cd $W || exit 2
export CARGO_TARGET_DIR=$W/target
rm -rf /tmp/r11out-$P; cp -r $O /tmp/r11out-$P; O=/tmp/r11out-$P; git reset -q --hard HEAD; git clean -fdq -e out -e target -e PROPERTY.json
git apply $O/patch.diff || { echo "patch does not apply"; exit 3; }
echo "== [change, no demo] suite:"; cargo test --workspace --no-fail-fast --offline 2>&1 | awk '/^test result/ {p+=$4; f+=$6} END {print "passed",p,"failed",f}'
git apply $O/demo.diff || { echo "demo does not apply"; exit 3; }
echo "== [change + demo] suite:"; cargo test --workspace --no-fail-fast --offline 2>&1 | tee /tmp/r11-$P.log | awk '/^test result/ {p+=$4; f+=$6} END {print "passed",p,"failed",f}'; grep -E "^test .* FAILED" /tmp/r11-$P.log | head -5
git apply -R $O/patch.diff; echo "== [demo only] suite:"; cargo test --workspace --no-fail-fast --offline 2>&1 | awk '/^test result/ {p+=$4; f+=$6} END {print "passed",p,"failed",f}'
rm -f /tmp/r11-$P.log
cd /verif && tools/applycheck.sh $O/patch.diff $P
