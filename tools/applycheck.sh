#!/bin/bash
# usage: tools/applycheck.sh <patch.diff> <PID...>  -- run checks against a scratch export of /repo HEAD with the patch applied (nothing touches /repo)
D=$(realpath $1); shift
M=/tmp/mrepo_ac_$$; rm -rf $M; mkdir $M; (cd /repo && git archive HEAD | tar -x -C $M; cp /repo/Cargo.lock $M/ 2>/dev/null)
(cd $M && patch -p1 -s < $D) || { echo "patch failed"; rm -rf $M; exit 3; }
for p in "$@"; do VERIF_REPO=$M /verif/check $p 2>&1 | grep -E "VIOLATION|UNDECIDED|KNOWN|failed obligation|tier=" | cut -c1-600 | head -12; done
H=$(python3 -c "import hashlib,os;print(hashlib.sha256(os.path.realpath('$M').encode()).hexdigest()[:10])")
[ -n "$KEEP" ] || rm -rf $M /verif/build/alt-$H /verif/build/target-$H /verif/build/replay_crate-$H /verif/build/bin/krp-replay-$H
