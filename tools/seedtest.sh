#!/bin/bash
# usage: tools/seedtest.sh <PID> [other PIDs to also run]   -- confirm a sub-agent's seeded change and run our checks against it
# 1. in the agent's worktree: suite passes with the change (demo excluded), demo fails with it, demo passes without it
# 2. apply patch.diff to a scratch export of /repo HEAD and run ./check <PID...> with VERIF_REPO
P=$1; shift; W=${SEEDROOT:-/tmp/seed}/$P; O=$W/_seed_out
[ -f $O/patch.diff ] || { echo "no patch for $P"; exit 2; }
export CARGO_TARGET_DIR=$W/target
DEMO=$(python3 -c "import json;print(json.load(open('$O/meta.json')).get('demo_command',''))")
echo "== demo_command: $DEMO"
cd $W
echo "== [with change] full suite:"; cargo test --workspace --no-fail-fast --offline 2>&1 | grep -E "^test result|FAILED|failed" | awk '/test result/ {p+=$4; f+=$6} END {print "passed",p,"failed",f}'
echo "== [with change] failing tests:"; cargo test --workspace --no-fail-fast --offline 2>&1 | grep -E "^test .* FAILED" | head -5
git apply -R $O/patch.diff && echo "== [change reverted] suite:" && cargo test --workspace --no-fail-fast --offline 2>&1 | awk '/^test result/ {p+=$4; f+=$6} END {print "passed",p,"failed",f}'
git apply $O/patch.diff
# scratch copy for our checks
M=/tmp/mrepo_$P; rm -rf $M; mkdir $M; (cd /repo && git archive HEAD | tar -x -C $M; cp /repo/Cargo.lock $M/ 2>/dev/null); (cd $M && git init -q . 2>/dev/null; git apply --unsafe-paths $O/patch.diff 2>/dev/null || patch -p1 -s < $O/patch.diff)
echo "== diff applied to scratch:"; (cd $M && diff -r -q /repo/contracts $M/contracts; diff -r -q /repo/packages $M/packages) | head
for p in ${PROP:-${P:0:3}} "$@"; do VERIF_REPO=$M /verif/check $p 2>&1 | grep -E "VIOLATION|UNDECIDED|tier=" | head -6; done
T=$(python3 -c "import hashlib,os;print(hashlib.sha256(os.path.realpath('$M').encode()).hexdigest()[:10])"); rm -rf $M /verif/build/alt-$T /verif/build/target-$T /verif/build/replay_crate-$T /verif/build/bin/krp-replay-$T
