#!/usr/bin/env python3
"""Generate MANIFEST.json from props.json + not_applicable.json (kept valid at all times)."""
import json, os
V = os.path.dirname(os.path.dirname(os.path.abspath(__file__)))
props = json.load(open(os.path.join(V, 'props.json')))
na = json.load(open(os.path.join(V, 'not_applicable.json'))) if os.path.exists(os.path.join(V, 'not_applicable.json')) else []
hooks = json.load(open(os.path.join(V, 'hooks.json'))) if os.path.exists(os.path.join(V, 'hooks.json')) else {}
checks = []
for pid in sorted(props):
    c = props[pid]
    if c.get('disabled'): continue
    checks.append(dict(
        property_id=pid,
        quick_cmd='./check %s --tier quick' % pid,
        thorough_cmd='./check %s --tier thorough' % pid,
        evidence_file='/verif/evidence/%s.json' % pid,
        replay_cmd_template='./check %s --replay {path}' % pid,
        engine='verus-contracts',
        level_claimed=dict(category='proof', text=c.get('level_text', c.get('explanation', '')), design_ref=c.get('design_ref', 'DESIGN.md section 6 ' + pid)),
        level_note='; '.join(c.get('assumptions', [])),
        technique=c.get('technique', 'contract-based deductive verification (Verus) of functions extracted from /repo on every run; violations are replayed on the real code; sentences outside the contracted functions are covered by a bounded search of executable twins on the real code (reported as bounded, never counted as proved)'),
    ))
m = dict(version=1,
         setup_cmd='python3 tools/setup.py',
         hooks=dict(guard='kryptonitedao_krp_staking_contracts_verif',
                    enable='RUSTFLAGS="--cfg kryptonitedao_krp_staking_contracts_verif" (set by tools/replaylib.py when it builds the replay crate against /repo)',
                    baseline_off_cmd='cd /repo && cargo test --workspace --no-fail-fast --offline',
                    source_commits=hooks.get('source_commits', []), add_only=True),
         engines=[dict(name='verus-contracts', path='/verif/check', serves_properties=[c['property_id'] for c in checks],
                       kind_free_text='Contracts (requires/ensures/invariants) in /verif/units/*.vrs are injected into functions extracted mechanically from /repo on every run; Verus discharges every obligation; failed obligations are mapped to named clauses and properties; a replay crate runs counterexample searches on the real crates.')],
         checks=checks,
         notes='exit 0 = all obligations discharged; exit 1 = VIOLATION line; exit 2 = undecided (lost anchor / unsupported construct / solver limit), never an alarm. See DESIGN.md.',
         not_applicable=[x for x in na if x['property_id'] not in [c['property_id'] for c in checks]])
json.dump(m, open(os.path.join(V, 'MANIFEST.json'), 'w'), indent=1)
print('MANIFEST.json: %d checks, %d not_applicable' % (len(checks), len(m['not_applicable'])))
