"""Replay support: build the replay crate against /repo's working tree, run recorded inputs and
seeded searches on the real code, write replay files (DESIGN.md section 7)."""
import os, sys, json, subprocess, shutil, hashlib, time
VERIF = os.path.dirname(os.path.dirname(os.path.abspath(__file__)))
REPO = os.environ.get('VERIF_REPO', '/repo')
BUILD = os.path.join(VERIF, 'build')
GUARD = 'kryptonitedao_krp_staking_contracts_verif'
_built = {}

def build():
    """(re)build the replay binary from the current sources of the tree under check; returns path or None"""
    if 'bin' in _built: return _built['bin']
    try:
        return _build()
    except Exception as e:
        _built['bin'] = None; _built['err'] = 'replay build failed: %r' % (e,)
        return None

def _build():
    import hashlib
    tag = 'main' if os.path.realpath(REPO) == '/repo' else hashlib.sha256(os.path.realpath(REPO).encode()).hexdigest()[:10]
    crate = os.path.join(BUILD, 'replay_crate-' + tag)
    os.makedirs(crate, exist_ok=True)
    man = open(os.path.join(VERIF, 'replay', 'Cargo.toml.in')).read().replace('@REPO@', REPO)
    mp = os.path.join(crate, 'Cargo.toml')
    if not os.path.exists(mp) or open(mp).read() != man:
        open(mp, 'w').write(man)
    lock = os.path.join(crate, 'Cargo.lock')
    if not os.path.exists(lock):
        src_lock = os.path.join(REPO, 'Cargo.lock')
        if not os.path.exists(src_lock): src_lock = os.path.join(VERIF, 'replay', 'Cargo.lock.fallback')
        shutil.copy(src_lock, lock)
    src = os.path.join(crate, 'src')
    os.makedirs(src, exist_ok=True)
    for f in os.listdir(os.path.join(VERIF, 'replay', 'src')):
        a = os.path.join(VERIF, 'replay', 'src', f); b = os.path.join(src, f)
        if not os.path.exists(b) or open(a).read() != open(b).read():
            shutil.copy(a, b)
    env = dict(os.environ, CARGO_NET_OFFLINE='true', RUSTFLAGS='--cfg %s' % GUARD)
    tgt = os.path.join(BUILD, 'target' if tag == 'main' else 'target-' + tag)   # never share a target dir between trees (cargo reuses rlibs by name)
    # one build at a time across processes
    import fcntl
    os.makedirs(BUILD, exist_ok=True)
    with open(os.path.join(BUILD, '.replay.lock'), 'w') as lk:
        fcntl.flock(lk, fcntl.LOCK_EX)
        p = subprocess.run(['cargo', 'build', '--release', '--offline', '--target-dir', tgt, '-q'],
                           cwd=crate, env=env, capture_output=True, text=True)
        if p.returncode == 0:
            # the target dir is shared between trees: keep this tree's binary under its own name (still under the lock)
            os.makedirs(os.path.join(BUILD, 'bin'), exist_ok=True)
            mine = os.path.join(BUILD, 'bin', 'krp-replay-' + tag)
            shutil.copy2(os.path.join(tgt, 'release', 'krp-replay'), mine + '.tmp%d' % os.getpid())
            os.replace(mine + '.tmp%d' % os.getpid(), mine)
    if p.returncode != 0:
        _built['bin'] = None
        _built['err'] = p.stderr[-3000:]
        return None
    _built['bin'] = mine
    return _built['bin']

def run_driver(driver, inp, timeout=120):
    b = build()
    if not b: return dict(error='infra: replay crate failed to build against the current tree: ' + _built.get('err', '')[-800:])
    p = subprocess.run([b, 'run', driver, json.dumps(inp)], capture_output=True, text=True, timeout=timeout)
    try:
        return json.loads(p.stdout.strip().split('\n')[-1])
    except Exception:
        return dict(error='driver output unreadable', stdout=p.stdout[-500:], stderr=p.stderr[-500:])

def search(driver, seed, budget, clause=None, timeout=600):
    b = build()
    if not b: return dict(found=False, error='replay crate failed to build: ' + _built.get('err', '')[-800:])
    cmd = [b, 'search', driver, str(seed), str(budget)] + ([clause] if clause else [])
    try:
        p = subprocess.run(cmd, capture_output=True, text=True, timeout=timeout)
        return json.loads(p.stdout.strip().split('\n')[-1])
    except Exception as e:
        return dict(found=False, error=str(e))

def drivers():
    return json.load(open(os.path.join(VERIF, 'replay', 'drivers.json')))

def reproduce_known(k):
    """a known finding applies only while every recorded input still fails on the real code"""
    rps = k.get('replay')
    if not rps: return dict(reproduced=False, why='no recorded input')
    if isinstance(rps, dict): rps = [rps]
    out = []
    for rp in rps:
        r = run_driver(rp['driver'], rp['input'])
        if 'error' in r: return dict(reproduced=False, why=r['error'])
        cl = r.get('clauses', {})
        bad = [c for c in rp['clauses'] if cl.get(c) is False]
        out.append(dict(ok=len(bad) == len(rp['clauses']), observed=r.get('observed')))
    return dict(reproduced=all(o['ok'] for o in out), runs=out)

def make_replay(pid, o, unit_res, seed):
    """write replays/<pid>-<clause>.json for a failed obligation; try to find a failing input"""
    name = o['name']
    safe = ''.join(ch if ch.isalnum() or ch in '._-' else '_' for ch in name)
    path = os.path.join(VERIF, 'replays', '%s-%s.json' % (pid, safe))
    d = drivers()
    ent = d.get(o['fn'])
    if isinstance(ent, str): ent = dict(driver=ent, prefix=None)
    drv = ent['driver'] if ent else None
    found = None
    tried = None
    if drv:
        short = name.split('#')[0] + '#'
        exact = name.replace(o['fn'] + '#BODY', '#BODY').replace(o['fn'] + '#NOABORT', '#BODY')
        for (sd, budget) in ((seed + 1, 60000), (seed + 77, 200000)):
            # 1. the executable twin of exactly this clause, 2. any twin of the same function
            tried = search(drv, sd, budget, exact)
            if tried.get('found'): found = tried; break
            pref = (ent.get('prefix') or short) + '*'
            tried2 = search(drv, sd, budget // 2, pref)
            if tried2.get('found'): found = tried2; break
    rec = dict(property=pid, failed_obligation=name, unit=o['unit'], function=o['fn'], kind=o['kind'],
               verifier_output=o['detail'], verus_cmd=unit_res.get('verus_cmd'),
               failing_input=(dict(driver=drv, input=found['input'], failed=found.get('failed'), observed=found.get('observed'), clauses=found.get('clauses')) if found else None),
               note=(None if found else 'no-failing-input-found: the verifier rejected the obligation; '
                     + ('the seeded search on the real code found no concrete failing input' if drv else 'no executable replay driver exists for this function')),
               search=tried if not found else None,
               rerun=('./check %s --replay %s' % (pid, path)))
    json.dump(rec, open(path, 'w'), indent=1)
    return path, bool(found)

def replay_file(path):
    rec = json.load(open(path))
    fi = rec.get('failing_input')
    if not fi:
        print('replay file carries no concrete input (no-failing-input-found); failed obligation: %s' % rec.get('failed_obligation'))
        print(json.dumps(rec.get('verifier_output'), indent=1))
        return 1
    r = run_driver(fi['driver'], fi['input'])
    print(json.dumps(r, indent=1))
    cl = r.get('clauses', {})
    bad = [k for k, v in cl.items() if v is False]
    print('FAILS: %s' % bad if bad else 'HOLDS on the current tree')
    return 1 if bad else 0
