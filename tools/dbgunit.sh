#!/bin/bash
# usage: tools/dbgunit.sh <patch.diff|-> <unit>  -- classification of one unit against a scratch export with the patch applied
D=$1; U=$2; M=/tmp/mrepo_dbg_$$; rm -rf $M; mkdir $M; (cd /repo && git archive HEAD | tar -x -C $M; cp /repo/Cargo.lock $M/)
[ "$D" = "-" ] || (cd $M && patch -p1 -s < $(realpath $D))
VERIF_REPO=$M python3 - $U <<'PY'
import sys; sys.path.insert(0,'/verif/tools')
import runner, json
r=runner.unit_result(sys.argv[1])
for k in runner.FAILKEYS: print(k, json.dumps(r[k])[:2500])
print('compile_errors', r['compile_errors'][:6]); print('rlimit', r['rlimit'], 'infra', r['infra'])
print([(f['name'],f.get('dropped_hints'),f.get('assumed_why')) for f in r['meta']['functions'] if f.get('dropped_hints') or f.get('assumed')])
print('verified', r['verified'], 'errors', r['errors'], 'wall', r['wall'])
PY
T=$(python3 -c "import hashlib,os;print(hashlib.sha256(os.path.realpath('$M').encode()).hexdigest()[:10])")
[ -n "$KEEP" ] && echo "kept $M build/alt-$T" || rm -rf $M /verif/build/alt-$T
