#!/usr/bin/env python3
"""vacuity probe: every contracted function gets `assert(false)` at body start; it must FAIL everywhere."""
import os, sys, json, subprocess
V = os.path.dirname(os.path.dirname(os.path.abspath(__file__)))
sys.path.insert(0, os.path.join(V, 'tools'))
def probe(unit, repo=None):
    env = dict(os.environ, VERIF_PROBE='1')
    if repo: env['VERIF_REPO'] = repo
    p = subprocess.run([sys.executable, os.path.join(V, 'tools', 'extract.py'), unit], env=env, capture_output=True, text=True)
    if p.returncode: return dict(error=p.stdout[-500:])
    import hashlib
    rp = os.path.realpath(repo or os.environ.get('VERIF_REPO', '/repo'))
    bd = os.path.join(V, 'build') if rp == '/repo' else os.path.join(V, 'build', 'alt-' + hashlib.sha256(rp.encode()).hexdigest()[:10])
    meta = json.load(open(os.path.join(bd, unit + '_probe.meta.json')))
    pr = {c['name']: c for c in meta['clauses'] if 'PROBE' in c['props']}
    q = subprocess.run(['verus', unit + '_probe.rs', '--triggers-mode', 'silent', '--multiple-errors', '1', '--error-format=json'], cwd=bd, capture_output=True, text=True)
    hit = set()
    for l in q.stderr.split('\n'):
        l = l.strip()
        if not l.startswith('{'): continue
        try: d = json.loads(l)
        except Exception: continue
        if d.get('level') != 'error': continue
        for s in d.get('spans', []):
            for n, c in pr.items():
                if c['lines'][0] <= s['line_start'] <= c['lines'][1]: hit.add(n)
    return dict(probes=len(pr), failing_as_required=len(hit), vacuous=sorted(set(pr) - hit))
if __name__ == '__main__':
    for u in sys.argv[1:]:
        print(u, probe(u))
