#!/usr/bin/env python3
"""Mechanical extraction of Rust items from /repo into single-file Verus units.

A unit template (units/<name>.vrs) is Verus source text with directive lines that start
with `//@`.  Everything that is not a directive is copied verbatim (shim code, spec fns,
lemmas).  Directives pull the *current* text of an item out of /repo, apply the fixed rewrite
table (DESIGN.md 2.1, R1..R11), and inject the contract written in the template.

Directives
  //@include <path relative to /verif>
  //@struct <file> <Name> [keep-derive=Clone,Copy,...]
  //@enum   <file> <Name>
  //@const  <file> <NAME>
  //@fn <file> <name> [impl=<Type>] [ret=<resname>] [vis=keep]
  //@ requires
  //@   <verus expr>,                 //# clause-name [C01,C02]
  //@ ensures
  //@   ...
  //@ loop <ordinal>
  //@   invariant ..., decreases ...
  //@ hint <"anchor text"> [nth=<k>] [after]
  //@   proof { ... }
  //@ rewrite <Rid> /regex/ => /replacement/ [count=<n>|count=+]
  //@ end

Exit convention: any lost anchor / unmatched required rewrite raises ExtractError, which the
runner turns into exit code 2 (undecided), never into a VIOLATION.
"""
import re, os, sys, json

class ExtractError(Exception):
    pass

# --------------------------------------------------------------------------------------
# lexical mask: same length as text, with comments and string/char literal contents blanked

def mask(text):
    out = list(text)
    i, n = 0, len(text)
    while i < n:
        c = text[i]
        if text.startswith('//', i):
            j = text.find('\n', i)
            if j < 0: j = n
            for k in range(i, j): out[k] = ' '
            i = j
        elif text.startswith('/*', i):
            depth, j = 1, i + 2
            while j < n and depth:
                if text.startswith('/*', j): depth += 1; j += 2
                elif text.startswith('*/', j): depth -= 1; j += 2
                else: j += 1
            for k in range(i, j):
                if out[k] != '\n': out[k] = ' '
            i = j
        elif c == '"' or (c in 'rb' and re.match(r'(?:b?r#*"|b")', text[i:i+6]) and (i == 0 or not (text[i-1].isalnum() or text[i-1] == '_'))):
            m = re.match(r'b?r(#*)"', text[i:])
            if m:
                hashes = m.group(1)
                start = i + m.end()
                endtok = '"' + hashes
                j = text.find(endtok, start)
                if j < 0: raise ExtractError('unterminated raw string')
                for k in range(start, j):
                    if out[k] != '\n': out[k] = ' '
                i = j + len(endtok)
            else:
                start = i + (2 if c == 'b' else 1)
                j = start
                while j < n and text[j] != '"':
                    j += 2 if text[j] == '\\' else 1
                for k in range(start, j):
                    if out[k] != '\n': out[k] = ' '
                i = j + 1
        elif c == "'":
            # char literal or lifetime
            m = re.match(r"'(\\.[^']*|[^'\\])'", text[i:])
            if m:
                for k in range(i + 1, i + m.end() - 1): out[k] = ' '
                i += m.end()
            else:
                i += 1
        else:
            i += 1
    return ''.join(out)

OPEN = {'(': ')', '[': ']', '{': '}'}

def match_close(msk, i):
    """msk[i] is an opening bracket; return index of its partner."""
    stack = []
    n = len(msk)
    while i < n:
        c = msk[i]
        if c in OPEN: stack.append(OPEN[c])
        elif c in ')]}':
            if not stack or stack.pop() != c: raise ExtractError('unbalanced brackets')
            if not stack: return i
        i += 1
    raise ExtractError('unbalanced brackets (eof)')

# --------------------------------------------------------------------------------------
# item location

def _item_start(text, msk, kw_pos):
    """walk back from the keyword over visibility, attributes and doc comments"""
    # back over `pub`, `pub(crate)`, `const`, `async`, `unsafe` on the same logical item
    i = kw_pos
    while True:
        m = re.search(r'(pub(\s*\([^)]*\))?|const|unsafe)\s*$', msk[:i])
        if m: i = m.start()
        else: break
    return i

def _strip_mod_tests(text, msk):
    """blank out #[cfg(test)] mod ... { } blocks so items in tests are never matched"""
    for m in re.finditer(r'#\[cfg\(test\)\]\s*(pub\s+)?mod\s+\w+\s*\{', msk):
        o = m.end() - 1
        c = match_close(msk, o)
        msk = msk[:m.start()] + re.sub(r'[^\n]', ' ', msk[m.start():c + 1]) + msk[c + 1:]
    return msk

def find_fn(text, name, impl=None):
    msk = _strip_mod_tests(text, mask(text))
    lo, hi = 0, len(text)
    if impl:
        found = None
        for m in re.finditer(r'\bimpl(\s*<[^>]*>)?\s+' + re.escape(impl) + r'\s*\{', msk):
            o = m.end() - 1
            c = match_close(msk, o)
            if re.search(r'\bfn\s+' + re.escape(name) + r'\b', msk[o:c]):
                found = (o, c)
                break
        if not found: raise ExtractError(f'impl {impl} with fn {name} not found')
        lo, hi = found
    ms = [m for m in re.finditer(r'\bfn\s+' + re.escape(name) + r'\b', msk[lo:hi])]
    # only depth-0 (relative to lo) matches
    cands = []
    for m in ms:
        p = lo + m.start()
        depth = 0
        for ch in msk[lo + (1 if impl else 0):p]:
            if ch == '{': depth += 1
            elif ch == '}': depth -= 1
        if depth == 0: cands.append(p)
    if len(cands) != 1:
        raise ExtractError(f'fn {name}: {len(cands)} candidates')
    p = cands[0]
    start = _item_start(text, msk, p)
    # find body open brace: first '{' at bracket depth 0 after the signature
    i = p
    depth = 0
    while i < hi:
        ch = msk[i]
        if ch in '([': depth += 1
        elif ch in ')]': depth -= 1
        elif ch == '{' and depth == 0: break
        elif ch == ';' and depth == 0: raise ExtractError(f'fn {name} has no body')
        i += 1
    body_open = i
    body_close = match_close(msk, body_open)
    line_start = text.count('\n', 0, start) + 1
    line_end = text.count('\n', 0, body_close) + 1
    return dict(sig=text[start:body_open], body=text[body_open:body_close + 1],
                lines=(line_start, line_end))

def find_adt(text, kind, name):
    msk = _strip_mod_tests(text, mask(text))
    m = re.search(r'\b' + kind + r'\s+' + re.escape(name) + r'\b', msk)
    if not m: raise ExtractError(f'{kind} {name} not found')
    start = _item_start(text, msk, m.start())
    i = m.end()
    # tuple struct: `struct X(..);`
    while msk[i] not in '{(;': i += 1
    if msk[i] == ';':
        end = i
    else:
        c = match_close(msk, i)
        end = c
        if msk[i] == '(':
            j = c + 1
            while msk[j] != ';': j += 1
            end = j
    body = text[start:end + 1]
    # derive list just before the item
    pre = msk[:start]
    dm = re.search(r'#\[derive\(([^\]]*)\)\]\s*(#\[[^\]]*\]\s*)*$', pre, re.S)
    derives = []
    if dm:
        derives = [d.strip() for d in dm.group(1).split(',') if d.strip()]
    # drop field attributes and doc comments inside (D1)
    bm = mask(body)
    out, i = [], 0
    for am in re.finditer(r'#\[[^\]]*\]', bm):
        out.append(body[i:am.start()]); i = am.end()
    out.append(body[i:])
    body = ''.join(out)
    body = re.sub(r'^\s*///.*$', '', body, flags=re.M)
    body = re.sub(r'^\s*//.*$', '', body, flags=re.M)
    body = re.sub(r'\n\s*\n', '\n', body)
    ls = text.count('\n', 0, start) + 1
    return dict(text=body, derives=derives, lines=(ls, text.count('\n', 0, end) + 1))

def find_const(text, name):
    msk = _strip_mod_tests(text, mask(text))
    m = re.search(r'\b(const|static)\s+' + re.escape(name) + r'\s*:', msk)
    if not m: raise ExtractError(f'const {name} not found')
    start = _item_start(text, msk, m.start())
    end = msk.index(';', m.end())
    return dict(text=text[start:end + 1], lines=(text.count('\n', 0, start) + 1,) * 2)

# --------------------------------------------------------------------------------------
# generic rewrite table (applied to every extracted fn body; counted)

def _blank_comments(body):
    """remove // comments (they may contain braces that confuse nothing, but keep text tidy)"""
    msk = mask(body)
    out = []
    for a, b in zip(body, msk):
        out.append(a if (b != ' ' or a in ' \n\t') else a)
    return body

def strip_comments(body):
    msk = mask(body)
    res = []
    i, n = 0, len(body)
    while i < n:
        if body.startswith('//', i) and msk[i] == ' ':
            j = body.find('\n', i)
            if j < 0: j = n
            i = j
        elif body.startswith('/*', i) and msk[i] == ' ':
            depth, j = 1, i + 2
            while j < n and depth:
                if body.startswith('/*', j): depth += 1; j += 2
                elif body.startswith('*/', j): depth -= 1; j += 2
                else: j += 1
            i = j
        else:
            res.append(body[i]); i += 1
    return ''.join(res)

class Counter(dict):
    def hit(self, k, n=1):
        self[k] = self.get(k, 0) + n

def rw_update_closure(body, cnt):
    """R1/R2: X.update([S,] [K,] |v| -> StdResult<_> { B })?;  ==>  load|may_load / B / save
    Item::update(S, f)   = load(S)?, f, save(S)          (cw-storage-plus)
    Map::update(S, K, f) = may_load(S, K)?, f, save(S, K) (cw-storage-plus)
    Bucket::update(K, f) = may_load(K)?, f, save(K)       (cosmwasm-storage)"""
    while True:
        msk = mask(body)
        m = re.search(r'\b([A-Za-z_][A-Za-z0-9_]*)\s*\.\s*update\s*\(', msk)
        if not m: return body
        o = m.end() - 1
        c = match_close(msk, o)
        inner = body[o + 1:c]
        imsk = msk[o + 1:c]
        cm = re.match(r'\s*(.*?)\s*,\s*\|\s*(mut\s+)?(\w+)(\s*:\s*[^|]+)?\|\s*(->\s*([^{]+?)\s*)?\{', imsk, re.S)
        if not cm: raise ExtractError('R1: unsupported update() shape: ' + inner[:80])
        args = inner[cm.start(1):cm.end(1)]
        var = cm.group(3); mut = 'mut ' if cm.group(2) else ''
        bo = o + 1 + cm.end() - 1
        bc = match_close(msk, bo)
        block = body[bo:bc + 1]
        if not re.match(r'\s*,?\s*\)', msk[bc + 1:]):
            raise ExtractError('R1: unexpected text after update() closure')
        tail = False
        if re.match(r'\s*\?', msk[c + 1:]):
            q = c + 1 + msk[c + 1:].index('?')
        elif re.match(r'\s*\}\s*$', msk[c + 1:]):
            tail = True; q = c          # the call is the tail expression of the function: its Result is returned
        else:
            raise ExtractError('R1: update() neither followed by ? nor in tail position')
        item = m.group(1)
        nargs = len([a for a in split_top(args) if a.strip()])
        upper = item.upper() == item
        if upper and nargs == 1:
            load = '%s.load(%s)?' % (item, args); rid = 'R1'
        else:
            load = '%s.may_load(%s)?' % (item, args); rid = 'R2'
        # a `return Err(e)` inside the closure leaves the closure; with the trailing `?` it
        # leaves the function with the same error: identical once inlined.
        ret = (cm.group(6) or '').strip()
        inner_v = ('let __r: %s = %s; let __upd = __r?;' % (ret, block)) if ret else ('let __upd = %s?;' % block)
        repl = ('{ let %s%s = %s; %s %s.save(%s, &__upd)?; %s}'
                % (mut, var, load, inner_v, item, args, 'Ok(__upd) ' if tail else ''))
        body = body[:m.start()] + repl + body[q + 1:]
        cnt.hit(rid)

def split_top(s):
    res, depth, cur = [], 0, ''
    for ch in s:
        if ch in '([{': depth += 1
        elif ch in ')]}': depth -= 1
        if ch == ',' and depth == 0:
            res.append(cur); cur = ''
        else: cur += ch
    res.append(cur)
    return res

def rw_opassign(body, cnt):
    """R3: a += b;  ==> a = a + b;   (also -=)"""
    def sub(m):
        cnt.hit('R3')
        lhs = m.group(2).strip()
        op = m.group(3)
        return '%s%s = %s %s (%s);' % (m.group(1), lhs, lhs, op, m.group(4).strip())
    # statement-level only: starts at line start (after whitespace) or after `=> `
    pat = re.compile(r'(^[ \t]*|=>[ \t]*)([A-Za-z_][\w\.]*(?:\[[^\]\n]*\])?(?:\.[\w\.]+)?)\s*([+\-])=\s*([^;{}]+?);', re.M)
    return pat.sub(sub, body)

def rw_opassign_arm(body, cnt):
    """R3 in match arms without semicolon:  X => a += b,  ==> X => { a = a + b; }"""
    def sub(m):
        cnt.hit('R3')
        lhs = m.group(2).strip(); op = m.group(3)
        return '%s{ %s = %s %s (%s); }%s' % (m.group(1), lhs, lhs, op, m.group(4).strip(), m.group(5))
    pat = re.compile(r'(=>[ \t]*)([A-Za-z_][\w\.]*)\s*([+\-])=\s*([^;{},]+?)(,)')
    return pat.sub(sub, body)

_loop_id = [0]
def _fresh():
    _loop_id[0] += 1
    return '__k%d' % _loop_id[0]

def rw_for_loops(body, cnt):
    """R4/R5/R7: every `for` loop becomes a `while` loop (definitional desugarings)."""
    while True:
        msk = mask(body)
        m = re.search(r'\bfor\s+', msk)
        if not m: return body
        # find ` in ` at depth 0 and the body '{'
        i = m.end(); depth = 0
        in_pos = None
        while i < len(msk):
            ch = msk[i]
            if ch in '([': depth += 1
            elif ch in ')]': depth -= 1
            elif depth == 0 and msk.startswith(' in ', i) and in_pos is None:
                in_pos = i
            elif ch == '{' and depth == 0 and in_pos is not None:
                break
            i += 1
        if in_pos is None: raise ExtractError('for: no `in`')
        bo = i
        pat = body[m.end():in_pos].strip()
        it = body[in_pos + 4:bo].strip()
        k = _fresh()
        # R4 range
        rm = re.match(r'^(.+?)\.\.(.+)$', it)
        em = re.match(r'^(\w[\w\.]*)\.(iter|iter_mut)\(\)\.enumerate\(\)$', it)
        pm = re.match(r'^\((\w+)\s*,\s*(\w+)\)$', pat)
        refm = re.match(r'^&\s*(\w[\w\.]*)$', it)
        iterm = re.match(r'^(\w[\w\.]*)\.iter\(\)$', it)
        if rm and not it.startswith('('):
            a, b = rm.group(1).strip(), rm.group(2).strip()
            head = 'let mut %s = %s; while %s < %s' % (k, a, k, b)
            pre = ' let %s = %s; %s = %s + 1;' % (pat, k, k, k)
            cnt.hit('R4')
        elif em and pm:
            v, kind = em.group(1), em.group(2)
            head = 'let mut %s: usize = 0; while %s < %s.len()' % (k, k, v)
            if kind == 'iter':
                pre = ' let %s = %s; let %s = &%s[%s]; %s = %s + 1;' % (pm.group(1), k, pm.group(2), v, pm.group(1), k, k)
            else:
                # iter_mut: element accessed in place through the index (see R5)
                pre = ' let %s = %s; %s = %s + 1;' % (pm.group(1), k, k, k)
                bc = match_close(msk, bo)
                inner = body[bo + 1:bc]
                inner = re.sub(r'\b%s\.' % re.escape(pm.group(2)), '%s[%s].' % (v, pm.group(1)), inner)
                body = body[:bo + 1] + inner + body[bc:]
            cnt.hit('R5')
        elif refm or iterm:
            v = (refm or iterm).group(1)
            head = 'let mut %s: usize = 0; while %s < %s.len()' % (k, k, v)
            pre = ' let %s = &%s[%s]; %s = %s + 1;' % (pat, v, k, k, k)
            cnt.hit('R5')
        elif re.match(r'^[\w\.]+(\.unwrap\(\))?$', it):
            # consuming iteration over a Vec, front to back
            head = 'let mut %s = %s; while %s.len() > 0' % (k, it, k)
            pre = ' let %s = %s.remove(0);' % (pat, k)
            cnt.hit('R7v')
        else:
            # R7: generic iterator (shim Bucket range): loop/match next()
            head = 'let mut %s = %s; loop' % (k, it)
            bc = match_close(mask(body), bo)
            inner = body[bo + 1:bc]
            body = (body[:m.start()] + head + ' { match %s.next() { None => { break; } Some(%s) => {' % (k, pat)
                    + inner + '} } }' + body[bc + 1:])
            cnt.hit('R7')
            continue
        body = body[:m.start()] + head + ' {' + pre + body[bo + 1:]

def rw_sum(body, cnt):
    """R6: let [mut] t: T = V.iter().map(|v| E).sum();"""
    pat = re.compile(r'let\s+(mut\s+)?(\w+)\s*:\s*(\w+)\s*=\s*(\w+)\.iter\(\)\.map\(\|(\w+)\|\s*([^)]+(?:\(\))?)\)\.sum\(\);')
    def sub(m):
        cnt.hit('R6')
        mut, t, ty, v, x, e = m.groups()
        k = _fresh()
        zero = '0' if ty in ('u128', 'u64', 'usize') else ty + '::zero()'
        return ('let mut %s: %s = %s; let mut %s: usize = 0; while %s < %s.len() { let %s = &%s[%s]; %s = %s + 1; %s = %s + %s; }'
                % (t, ty, zero, k, k, v, x, v, k, k, k, t, t, e))
    return pat.sub(sub, body)

def rw_closure_underscore(body, cnt):
    def sub(m):
        cnt.hit('R12')
        return '|_e|'
    return re.sub(r'\|_\|', sub, body)

def rw_find(body, cnt):
    """R8: E.iter().find(|x| P)  ==>  search loop returning the first element satisfying P (definition of Iterator::find)"""
    while True:
        msk = mask(body)
        m = re.search(r'([A-Za-z_][\w]*(?:\s*\.\s*[A-Za-z_]\w*)*)\s*\.\s*iter\(\)\s*\.\s*find\s*\(', msk)
        if not m: return body
        o = m.end() - 1
        c = match_close(msk, o)
        inner = body[o + 1:c]
        cm = re.match(r'\s*\|\s*(\w+)\s*\|\s*(.*)$', inner, re.S)
        if not cm: raise ExtractError('R8: unsupported find() closure: ' + inner[:60])
        x, pred = cm.group(1), cm.group(2).strip()
        e = re.sub(r'\s+', '', body[m.start(1):m.end(1)])
        k = _fresh()
        repl = ('{ let mut __found = none_of(&%s); let mut %s: usize = 0; while %s < %s.len() { let %s = &%s[%s]; %s = %s + 1; if %s { __found = Some(%s); break; } } __found }'
                % (e, k, k, e, x, e, k, k, k, pred, x))
        body = body[:m.start()] + repl + body[c + 1:]
        cnt.hit('R8')

def rw_map_collect(body, cnt):
    """R19: let [mut] X = V.iter().map(|d| E).collect::<Vec<T>>();  ==> push loop (definition of map/collect on slices)"""
    while True:
        msk = mask(body)
        m = re.search(r'let\s+(mut\s+)?(\w+)\s*=\s*(\w+)\s*\.\s*iter\(\)\s*\.\s*map\s*\(', msk)
        if not m: return body
        o = m.end() - 1
        c = match_close(msk, o)
        inner = body[o + 1:c]
        cm = re.match(r'\s*\|\s*(\w+)\s*\|\s*(.*)$', inner, re.S)
        tm = re.match(r'\s*\.\s*collect::<Vec<(\w+)>>\(\)\s*;', msk[c + 1:])
        if not cm or not tm: raise ExtractError('R19: unsupported map/collect shape')
        x, e = cm.group(1), cm.group(2).strip()
        k = _fresh()
        repl = ('let mut %s: Vec<%s> = Vec::new(); let mut %s: usize = 0; while %s < %s.len() { let %s = &%s[%s]; %s = %s + 1; %s.push(%s); }'
                % (m.group(2), tm.group(1), k, k, m.group(3), x, m.group(3), k, k, k, m.group(2), e))
        body = body[:m.start()] + repl + body[c + 1 + tm.end():]
        cnt.hit('R19')

def rw_map_or(body, cnt):
    """R30: RECV.map_or(D, |p| E)  ==>  (match RECV { None => D, Some(p) => E })   (definition of Option::map_or)
    only when D is a literal or a plain path (evaluated eagerly by map_or, so it must be free of effects) and E neither returns nor uses `?`"""
    start = 0
    while True:
        msk = mask(body)
        m = re.compile(r'([A-Za-z_]\w*(?:\s*\.\s*[A-Za-z_]\w*)*)\s*\.\s*map_or\s*\(').search(msk, start)
        if not m: return body
        o = m.end() - 1
        c = match_close(msk, o)
        parts = split_top(body[o + 1:c])
        ok = len(parts) == 2
        if ok:
            d = parts[0].strip(); cl = parts[1].strip()
            cm = re.match(r'^\|\s*([\w\s,&()]+?)\s*\|\s*(.*)$', cl, re.S)
            ok = bool(cm) and bool(re.match(r'^[\w:\.]+$', d)) and not re.search(r'\breturn\b|\?', mask(cm.group(2)) if cm else '')
        if not ok:
            start = m.end(); continue
        recv = re.sub(r'\s+', '', body[m.start(1):m.end(1)])
        body = body[:m.start()] + '(match %s { None => %s, Some(%s) => %s })' % (recv, d, cm.group(1).strip(), cm.group(2).strip()) + body[c + 1:]
        cnt.hit('R30')

def rw_as_ref_and_then(body, cnt):
    """R31: RECV.as_ref().and_then(|p| E)  ==>  (match &RECV { None => None, Some(p) => E })   (definitions of Option::as_ref and
    Option::and_then); only when E neither returns nor uses `?`"""
    start = 0
    while True:
        msk = mask(body)
        m = re.compile(r'([A-Za-z_]\w*(?:\s*\.\s*[A-Za-z_]\w*)*)\s*\.\s*as_ref\s*\(\s*\)\s*\.\s*and_then\s*\(').search(msk, start)
        if not m: return body
        o = m.end() - 1
        c = match_close(msk, o)
        cl = body[o + 1:c].strip()
        cm = re.match(r'^\|\s*(\w+)\s*\|\s*(.*)$', cl, re.S)
        if not cm or re.search(r'\breturn\b|\?', mask(cm.group(2))):
            start = m.end(); continue
        recv = re.sub(r'\s+', '', body[m.start(1):m.end(1)])
        body = body[:m.start()] + '(match &%s { None => None, Some(%s) => %s })' % (recv, cm.group(1), cm.group(2).strip()) + body[c + 1:]
        cnt.hit('R31')

def rw_format(body, cnt):
    """D5: `format!(..)` only builds error / attribute text, which no clause specifies: the text is dropped"""
    while True:
        msk = mask(body)
        m = re.search(r'\bformat!\s*\(', msk)
        if not m: return body
        c = match_close(msk, m.end() - 1)
        body = body[:m.start()] + 'opaque_text()' + body[c + 1:]
        cnt.hit('D5')

def rw_into_iter_map_collect(body, cnt):
    """R19b: let X: Vec<T> = V.into_iter().map(|PAT| E).collect();  ==> consuming push loop, front to back"""
    while True:
        msk = mask(body)
        m = re.search(r'let\s+(\w+)\s*:\s*Vec<(\w+)>\s*=\s*(\w+)\s*\.\s*into_iter\(\)\s*\.\s*map\s*\(', msk)
        if not m: return body
        o = m.end() - 1
        c = match_close(msk, o)
        inner = body[o + 1:c]
        cm = re.match(r'\s*\|(.*?)\|\s*(.*)$', inner, re.S)
        tm = re.match(r'\s*\.\s*collect\(\)\s*;', msk[c + 1:])
        if not cm or not tm: raise ExtractError('R19b: unsupported into_iter/map/collect shape')
        pat, e = cm.group(1).strip(), cm.group(2).strip()
        k = _fresh()
        repl = ('let mut %s: Vec<%s> = Vec::new(); let mut %s = %s; while %s.len() > 0 { let %s = %s.remove(0); %s.push(%s); }'
                % (m.group(1), m.group(2), k, m.group(3), k, pat, k, m.group(1), e))
        body = body[:m.start()] + repl + body[c + 1 + tm.end():]
        cnt.hit('R19b')

def rw_paths(body, cnt):
    """D3: the unit is one module; drop `cosmwasm_std::` path qualifiers"""
    body, n = re.subn(r'\bcosmwasm_std::', '', body)
    if n: cnt.hit('D3', n)
    return body

GENERIC = [rw_paths, rw_map_or, rw_as_ref_and_then, rw_format, rw_into_iter_map_collect, rw_map_collect, rw_find, rw_update_closure, rw_sum, rw_for_loops, rw_opassign, rw_opassign_arm, rw_closure_underscore]

# --------------------------------------------------------------------------------------

def strip_attrs(sig):
    sig = re.sub(r'#\[[^\]]*\]\s*', '', sig)
    sig = re.sub(r'^\s*///.*\n', '', sig, flags=re.M)
    sig = re.sub(r'^\s*//.*\n', '', sig, flags=re.M)
    return sig

def loops_in(body):
    """positions of loop keywords (after rewrites), in textual order, with their '{'"""
    msk = mask(body)
    res = []
    for m in re.finditer(r'\b(while|loop)\b', msk):
        i = m.end(); depth = 0
        while i < len(msk):
            ch = msk[i]
            if ch in '([': depth += 1
            elif ch in ')]': depth -= 1
            elif ch == '{' and depth == 0: break
            i += 1
        res.append((m.start(), i))
    return res

ITEM_TMPL = '''
// typed accessor standing for `pub const @C@: Item<@T@>` (A5); storage field `@F@`
pub struct Item_@C@;
impl Item_@C@ {
    #[verifier::external_body]
    pub fn load(&self, s: &Storage) -> (r: StdResult<@T@>)
        ensures s.@F@ is Some ==> r is Ok && r->Ok_0 == s.@F@->Some_0,
                s.@F@ is None ==> r is Err
    { unimplemented!() }
    #[verifier::external_body]
    pub fn may_load(&self, s: &Storage) -> (r: StdResult<Option<@T@>>)
        ensures r is Ok, r->Ok_0 == s.@F@
    { unimplemented!() }
    #[verifier::external_body]
    pub fn save(&self, s: &mut Storage, v: &@T@) -> (r: StdResult<()>)
        ensures r is Ok, *final(s) == (Storage { @F@: Some(*v), ..*old(s) })
    { unimplemented!() }
}
pub const @C@: Item_@C@ = Item_@C@;
'''

def find_anchor(body, anchor, start=0):
    """position of a hint anchor: the literal text; for a `let` anchor also the same binding written with or without `mut`,
    with or without a type annotation, and with any spacing (a refactoring that only changes those keeps the anchor)"""
    pos = body.find(anchor, start)
    if pos >= 0: return pos
    m = re.match(r'^let\s+(?:mut\s+)?([A-Za-z_]\w*|\([^)]*\))\s*(?::\s*[^=]+?)?\s*(=?)\s*(.*)$', anchor, re.S)
    if not m: return -1
    name = re.escape(m.group(1)).replace('\\ ', '\\s*')
    rest = '\\s*'.join(re.escape(t) for t in m.group(3).split()) if m.group(3).strip() else ''
    pat = r'let\s+(?:mut\s+)?' + name + r'\b\s*(?::\s*[^=;]+?)?' + (r'\s*=\s*' + rest if m.group(2) else '')
    mm = re.compile(pat).search(body, start)
    if mm: return mm.start()
    # the bound name changed: fall back to the statement that contains the same right-hand side text
    rest = m.group(3).strip()
    if m.group(2) and len(rest) >= 8:
        rm = re.compile('\\s*'.join(re.escape(t) for t in rest.split())).search(body, start)
        if rm and not re.compile('\\s*'.join(re.escape(t) for t in rest.split())).search(body, rm.end()):     # unambiguous
            j = rm.start()
            while j > 0 and body[j - 1] not in ';{}': j -= 1
            while j < rm.start() and body[j].isspace(): j += 1
            return j
    return -1

_KW_BLOCK = ('if', 'for', 'while', 'loop', 'match', 'unsafe')

def _stmts_before(bm, off):
    """top-level statements of the block enclosing `off`, as (start, end) offsets, up to `off`; None when the text
    cannot be split with confidence"""
    # enclosing block start
    d = 0; j = off - 1
    while j >= 0:
        ch = bm[j]
        if ch in ')]}': d += 1
        elif ch in '([{':
            if d == 0: break
            d -= 1
        j -= 1
    if j < 0 or bm[j] != '{': return None
    res = []; i = j + 1
    while i < off:
        while i < off and bm[i].isspace(): i += 1
        if i >= off: break
        st = i; d = 0
        kw = re.match(r'(\w+)', bm[i:])
        blocky = bool(kw and kw.group(1) in _KW_BLOCK) or bm[i] == '{'
        while i < len(bm):
            ch = bm[i]
            if ch in '([{': d += 1
            elif ch in ')]}':
                d -= 1
                if d < 0: return None
                if d == 0 and ch == '}' and blocky:
                    m = re.match(r'\s*else\b', bm[i + 1:])
                    if not m:
                        i += 1
                        m2 = re.match(r'\s*;', bm[i:])     # `if .. {..};`
                        if m2: i += m2.end()
                        break
            elif ch == ';' and d == 0:
                i += 1; break
            i += 1
        res.append((st, i))
    return res

def float_up(body, bm, off, hint_lines):
    """F1: a proof hint is placed as early as its text allows -- above preceding `let` statements that bind nothing the
    hint mentions and can neither fail, return nor touch storage.  Keeps the guidance ahead of an expression that a
    refactoring moves into a local of its own."""
    st = _stmts_before(bm, off)
    if not st: return off
    # `off` must sit on a statement boundary
    if bm[st[-1][1]:off].strip(): return off
    idents = set(re.findall(r'[A-Za-z_]\w*', '\n'.join(hint_lines)))
    k = len(st)
    while k > 0:
        a, b = st[k - 1]
        t = bm[a:b]
        if not re.match(r'let\b', t): break
        if '?' in t or re.search(r'\breturn\b|&mut\b|\bdeps\b|\bstorage\b|\bunsafe\b', t): break
        # binders: identifiers before the first top-level `=`
        d = 0; eq = None
        for x, ch in enumerate(t):
            if ch in '([{<': d += 1
            elif ch in ')]}>': d -= 1
            elif ch == '=' and d <= 0 and t[x:x + 2] != '==': eq = x; break
        if eq is None: break
        binders = set(re.findall(r'[A-Za-z_]\w*', t[3:eq])) - {'mut', 'ref'}
        if binders & idents: break
        k -= 1
    return st[k][0] if k < len(st) else off

class Clause:
    def __init__(self, name, props, kind, fn):
        self.name, self.props, self.kind, self.fn = name, props, kind, fn
        self.line0 = self.line1 = None
    def to_json(self):
        return dict(name=self.name, props=self.props, kind=self.kind, fn=self.fn, lines=[self.line0, self.line1])

TAG = re.compile(r'//#\s*([\w#\.\-]+)\s*\[([^\]]*)\]\s*$')

class Unit:
    def __init__(self, name, repo, verif):
        self.name, self.repo, self.verif = name, repo, verif
        self.out = []           # output lines
        self.clauses = []       # Clause
        self.functions = []     # dicts
        self.rewrites = {}
        self.lemmas = []        # (name, props, line)
        self.sources = set()
        self.lenient = bool(os.environ.get('VERIF_LENIENT'))
        self.force_assume = set(x for x in os.environ.get('VERIF_ASSUME_FNS', '').split(',') if x)
        self.assumed = []
        self.drop_hints = set()

    def read_repo(self, rel):
        p = os.path.join(self.repo, rel)
        if not os.path.exists(p): raise ExtractError('missing source file ' + rel)
        self.sources.add(rel)
        return open(p).read()

    def emit(self, text):
        for l in text.split('\n'):
            self.out.append(l)

    def emit_tagged(self, lines, kind, fn):
        """emit spec lines, recording clause tags -> output line ranges"""
        cur = None
        for l in lines:
            m = TAG.search(l)
            if m:
                props = [p.strip() for p in m.group(2).split(',') if p.strip()]
                cur = Clause(m.group(1), props, kind, fn)
                cur.line0 = len(self.out) + 1
                self.clauses.append(cur)
                l = l[:m.start()].rstrip()
                self.out.append(l)
                cur.line1 = len(self.out)
            else:
                self.out.append(l)
                if cur is not None and l.strip() and not re.match(r'^\s*(invariant|ensures|requires|decreases)', l):
                    pass
        # extend each clause to the line before the next clause / end of block
        return

    def expand(self, path, depth=0):
        out = []
        for l in open(path).read().split('\n'):
            st = l.strip()
            if st.startswith('//@include '):
                inc = os.path.join(self.verif, st.split()[1])
                if depth > 8: raise ExtractError('include depth')
                out += self.expand(inc, depth + 1)
            else:
                out.append(l)
        return out

    def build(self, template_path):
        lines = self.expand(template_path)
        i = 0
        while i < len(lines):
            l = lines[i]
            s = l.strip()
            if not s.startswith('//@'):
                m = re.match(r'\s*//#lemma\s*\[([^\]]*)\]', l)
                if m:
                    # next `proof fn NAME`
                    j = i + 1
                    while j < len(lines) and not re.search(r'\bproof\s+fn\s+(\w+)', lines[j]): j += 1
                    nm = re.search(r'\bproof\s+fn\s+(\w+)', lines[j]).group(1)
                    self.lemmas.append(dict(name=nm, props=[p.strip() for p in m.group(1).split(',') if p.strip()]))
                self.out.append(l)
                i += 1
                continue
            d = s[3:].strip().split()
            if not d:
                i += 1; continue
            if d[0] == 'item':
                self.emit(ITEM_TMPL.replace('@C@', d[1]).replace('@T@', d[2]).replace('@F@', d[3]))
                i += 1
            elif d[0] in ('struct', 'enum'):
                src = self.read_repo(d[1])
                a = find_adt(src, d[0], d[2])
                opts = dict(x.split('=', 1) for x in d[3:] if '=' in x)
                keep = [x for x in opts.get('derive', '').split(',') if x]
                if keep: self.out.append('#[derive(%s)]' % ', '.join(keep))
                txt = a['text']
                if 'rename' in opts:
                    txt = re.sub(r'\b' + d[2] + r'\b', opts['rename'], txt, count=1)
                self.emit(txt)
                self.functions.append(dict(kind=d[0], name=d[2], file=d[1], lines=a['lines']))
                i += 1
            elif d[0] == 'const':
                src = self.read_repo(d[1])
                a = find_const(src, d[2])
                t = a['text']
                sm = re.match(r'(pub\s+)?static\s+(\w+)\s*:\s*&\[u8\]\s*=\s*b"([^"]*)";', t.strip())
                if sm:
                    bs = ', '.join(str(b) for b in sm.group(3).encode())
                    nm = sm.group(2)
                    t = ('pub open spec fn %s_spec() -> Seq<u8> { seq![%s] }\n'
                         'pub exec const %s: &\'static [u8]\n    ensures %s@ == %s_spec()\n{\n    let r: &\'static [u8] = &[%s];\n    assert(r@ =~= %s_spec());\n    r\n}'
                         % (nm, ', '.join(str(b) + 'u8' for b in sm.group(3).encode()), nm, nm, nm, ', '.join(str(b) + 'u8' for b in sm.group(3).encode()), nm))
                    self.rewrites.setdefault(d[2], Counter()).hit('R10')
                self.emit(t)
                i += 1
            elif d[0] == 'fn':
                i = self.do_fn(lines, i, d)
            else:
                raise ExtractError('unknown directive: ' + s)
        # compute clause line ranges: a clause spans from its tag line to the line before the
        # next clause of the same fn/kind block or the end of that spec block (recorded in line1)
        return '\n'.join(self.out) + '\n'

    def do_fn(self, lines, i, d):
        file, name = d[1], d[2]
        opts = dict(x.split('=', 1) for x in d[3:] if '=' in x)
        resname = opts.get('ret', 'res')
        # collect the spec block
        sect = None
        spec = dict(requires=[], ensures=[], loops={}, hints=[], rewrites=[], recommends=[], decreases=[])
        i += 1
        while True:
            if i >= len(lines): raise ExtractError('unterminated //@fn ' + name)
            l = lines[i]
            s = l.strip()
            if s.startswith('//@'):
                body = s[3:].strip()
                w = body.split()
                if not w:
                    i += 1; continue
                if w[0] == 'end':
                    i += 1; break
                if w[0] in ('requires', 'ensures', 'decreases'):
                    sect = spec[w[0]]; i += 1; continue
                if w[0] == 'loop':
                    sect = spec['loops'].setdefault(int(w[1]), []); i += 1; continue
                if w[0] == 'hint':
                    hm = re.match(r'hint\s+"((?:[^"\\]|\\.)*)"(.*)$', body)
                    if not hm: raise ExtractError('bad hint directive: ' + s)
                    o = hm.group(2).split()
                    h = dict(anchor=hm.group(1).replace('\\"', '"'), nth=1, after=('after' in o), nofloat=('nofloat' in o), text=[])
                    for x in o:
                        if x.startswith('nth='): h['nth'] = int(x[4:])
                    spec['hints'].append(h); sect = h['text']; i += 1; continue
                if w[0] == 'loopend':
                    h = dict(loopend=int(w[1]), text=[])
                    spec['hints'].append(h); sect = h['text']; i += 1; continue
                if w[0] == 'rewrite':
                    rm = re.match(r'rewrite\s+(\w+)\s+/(.*)/\s*=>\s*/(.*)/\s*(count=\S+)?\s*$', body)
                    if not rm: raise ExtractError('bad rewrite directive: ' + s)
                    spec['rewrites'].append((rm.group(1), rm.group(2), rm.group(3), (rm.group(4) or 'count=1')[6:]))
                    i += 1; continue
                # otherwise: a spec line written with the //@ prefix
                if sect is None: raise ExtractError('spec line outside section: ' + s)
                sect.append(l.replace('//@', '   ', 1))
                i += 1; continue
            if sect is None:
                if s == '':
                    i += 1; continue
                raise ExtractError('spec text before a section in fn ' + name + ': ' + s)
            sect.append(l)
            i += 1
        # emit the function; if its text can no longer be brought under its contract (lost anchor, lost loop, rewrite
        # mismatch) or the runner asked for it (front-end rejection inside this body), fall back to an ASSUMED copy:
        # signature + contract, body external -- its clauses become *undecided*, the rest of the unit is still verified.
        forced = name in self.force_assume or (opts.get('as') in self.force_assume)
        mark = (len(self.out), len(self.clauses), len(self.functions), self._partial)
        try:
            if forced: raise ExtractError('assumed at the runner\'s request')
            self._emit_fn(file, name, opts, resname, spec)
        except ExtractError as e:
            if not self.lenient and not forced: raise
            del self.out[mark[0]:]; del self.clauses[mark[1]:]; del self.functions[mark[2]:]; self._partial = mark[3]
            self._emit_assumed(file, name, opts, resname, spec, str(e))
        return i

    def _emit_assumed(self, file, name, opts, resname, spec, why):
        src = self.read_repo(file)
        f = find_fn(src, name, opts.get('impl'))
        sig = strip_attrs(f['sig'])
        sig = sig.replace('&mut dyn Storage', '&mut Storage').replace('&dyn Storage', '&Storage').replace('&dyn Api', '&Api')
        sig = re.sub(r'pub\s*\(crate\)\s*', 'pub ', sig)
        if opts.get('as'): sig = re.sub(r'\bfn\s+' + re.escape(name) + r'\b', 'fn ' + opts['as'], sig, count=1)
        for rid, pat, rep, count in spec['rewrites']:
            if rid.startswith('P'): continue
            sig = re.sub(pat, rep, sig, flags=re.S)
        smk = mask(sig); am = None
        for mm in re.finditer(r'->', smk):
            pre = smk[:mm.start()]
            if pre.count('(') == pre.count(')'): am = mm
        if am: sig = sig[:am.start()] + '-> (%s: %s)' % (resname, sig[am.end():].strip())
        oname = opts.get('as') or name
        fnrec = dict(kind='fn', name=oname, src_name=name, file=file, lines=f['lines'], impl=opts.get('impl'), assumed=True, assumed_why=why)
        self.functions.append(fnrec); self.assumed.append(oname); self.rewrites[oname] = Counter()
        if opts.get('impl'): self.out.append('impl %s {' % opts['impl'])
        fnrec['sig_line0'] = len(self.out) + 1
        self.out.append('#[verifier::external_body]')
        self.emit(sig.rstrip())
        if spec['requires']:
            self.out.append('    requires'); self.emit_tagged(spec['requires'], 'requires', oname)
        if spec['ensures']:
            self.out.append('    ensures'); self.emit_tagged(spec['ensures'], 'ensures', oname)
        fnrec['out_line0'] = len(self.out) + 1
        self.out.append('{ unimplemented!() }')
        fnrec['out_line1'] = len(self.out)
        if opts.get('impl'): self.out.append('}')

    def _emit_fn(self, file, name, opts, resname, spec):
        src = self.read_repo(file)
        f = find_fn(src, name, opts.get('impl'))
        cnt = Counter()
        _loop_id[0] = 0
        sig = strip_attrs(f['sig'])
        body = strip_comments(f['body'])
        sig = sig.replace('&mut dyn Storage', '&mut Storage').replace('&dyn Storage', '&Storage').replace('&dyn Api', '&Api')
        if 'dyn' in f['sig']: cnt.hit('D2')
        sig = re.sub(r'pub\s*\(crate\)\s*', 'pub ', sig)
        if opts.get('as'):
            sig = re.sub(r'\bfn\s+' + re.escape(name) + r'\b', 'fn ' + opts['as'], sig, count=1)
        # pre-rewrites (ids starting with P) run before the generic table
        for rid, pat, rep, count in spec['rewrites']:
            if not rid.startswith('P'): continue
            body2, n = re.subn(pat, rep, body, flags=re.S)
            if n == 0 or (count != '+' and n != int(count)):
                raise ExtractError(f'{name}: pre-rewrite {rid} /{pat}/ matched {n} times (expected {count})')
            cnt.hit(rid, n); body = body2
        for fnrw in GENERIC:
            body = fnrw(body, cnt)
        for rid, pat, rep, count in spec['rewrites']:
            if rid.startswith('P'): continue
            sig, n0 = re.subn(pat, rep, sig, flags=re.S)
            body2, n = re.subn(pat, rep, body, flags=re.S)
            n += n0
            if count == '*':
                pass
            elif n == 0 or (count != '+' and n != int(count)):
                raise ExtractError(f'{name}: rewrite {rid} /{pat}/ matched {n} times (expected {count})')
            cnt.hit(rid, n)
            body = body2
        # result naming (R9)
        smk = mask(sig)
        am = None
        depth = 0
        for mm in re.finditer(r'->', smk):
            # top-level arrow after the parameter list
            pre = smk[:mm.start()]
            if pre.count('(') == pre.count(')'):
                am = mm
        if am:
            ret = sig[am.end():].strip()
            sig = sig[:am.start()] + '-> (%s: %s)' % (resname, ret)
        # loops
        lp = loops_in(body)
        for k in sorted(spec['loops'], reverse=True):
            if k >= len(lp): raise ExtractError(f'{name}: loop ordinal {k} not found ({len(lp)} loops)')
        # hints and loop specs are inserted by offset, from the back
        inserts = []  # (offset, kind, payload)
        dropped = []  # proof hints that could not be placed on this tree (lenient mode): the function is verified without them
        for k, ls in spec['loops'].items():
            inserts.append((lp[k][1], 'loop', (k, ls)))
        bm = mask(body)
        for hidx, h in enumerate(spec['hints']):
            if (opts.get('as') or name, hidx) in self.drop_hints:
                dropped.append('hint %d (%r): rejected by the front end on this tree' % (hidx, h.get('anchor', 'loopend'))); continue
            if 'loopend' in h:
                k = h['loopend']
                if k >= len(lp): raise ExtractError(f'{name}: loopend ordinal {k} not found')
                inserts.append((match_close(bm, lp[k][1]), 'hint', h['text'], hidx))
                continue
            pos = -1; start = 0
            for _ in range(h['nth']):
                pos = find_anchor(body, h['anchor'], start)
                if pos < 0: break
                start = pos + 1
            if pos < 0:
                if not self.lenient: raise ExtractError(f'{name}: hint anchor lost: {h["anchor"]!r}')
                dropped.append('hint %d: anchor lost: %r' % (hidx, h['anchor'])); continue
            if h['after']:
                # end of the statement containing the anchor: next ';' at depth 0 relative to anchor
                j = pos; depth = 0; tail = False
                while j < len(bm):
                    ch = bm[j]
                    if ch in '([{': depth += 1
                    elif ch in ')]}':
                        if depth == 0:
                            tail = True; break      # statement is the tail expression of its block (no `;`)
                        depth -= 1
                    elif ch == ';' and depth <= 0: break
                    j += 1
                if tail:
                    inserts.append((j, 'hint', [';'] + h['text'], hidx))
                    continue
                off = j + 1
            else:
                # exactly before the anchor text (anchors are chosen at statement starts)
                off = pos
                if not h.get('nofloat'):
                    off2 = float_up(body, bm, off, h['text'])
                    if off2 != off: cnt.hit('F1'); off = off2
            inserts.append((off, 'hint', h['text'], hidx))
        inserts.sort(key=lambda x: x[0])
        # emit
        src_name = name
        name = opts.get('as') or name
        fnrec = dict(kind='fn', name=name, src_name=src_name, file=file, lines=f['lines'], impl=opts.get('impl'))
        if dropped: fnrec['dropped_hints'] = dropped
        self.functions.append(fnrec)
        self.rewrites[name] = cnt
        if opts.get('impl'):
            self.out.append('impl %s {' % opts['impl'])
        fnrec['sig_line0'] = len(self.out) + 1
        if opts.get('isolation') == 'false':
            self.out.append('#[verifier::loop_isolation(false)]')
        self.emit(sig.rstrip())
        if spec['requires']:
            self.out.append('    requires')
            self.emit_tagged(spec['requires'], 'requires', name)
        if spec['ensures']:
            self.out.append('    ensures')
            self.emit_tagged(spec['ensures'], 'ensures', name)
        if spec['decreases']:
            self.out.append('    decreases')
            self.emit_tagged(spec['decreases'], 'decreases', name)
        fnrec['out_line0'] = len(self.out) + 1
        if os.environ.get('VERIF_PROBE') and (spec['ensures'] or spec['requires']):
            # reachability probe behind the precondition: must FAIL (a caller never sees it)
            body = '{ proof { assert(false); } //PROBE\n' + body[1:]
            inserts = [(x[0] + len('{ proof { assert(false); } //PROBE\n') - 1,) + tuple(x[1:]) for x in inserts]
            c = Clause(name + '#__probe', ['PROBE'], 'probe', name); c.line0 = c.line1 = len(self.out) + 1
            self.clauses.append(c)
        pos = 0
        for ins in inserts:
            off, kind, payload = ins[0], ins[1], ins[2]
            self.emit_raw(body[pos:off])
            pos = off
            if kind == 'loop':
                self.flush_partial()
                self.emit_tagged(payload[1], 'invariant', name)
            else:
                self.flush_partial()
                h0 = len(self.out) + 1
                for hl in payload: self.out.append(hl)
                fnrec.setdefault('hint_lines', []).append([h0, len(self.out)])     # proof-support text, not code and not specification
                fnrec.setdefault('hint_ids', []).append(ins[3] if len(ins) > 3 else -1)
        self.emit_raw(body[pos:])
        self.flush_partial()
        fnrec['out_line1'] = len(self.out)
        if opts.get('impl'):
            self.out.append('}')

    _partial = ''
    def emit_raw(self, text):
        text = self._partial + text
        parts = text.split('\n')
        self._partial = parts.pop()
        self.out.extend(parts)
    def flush_partial(self):
        if self._partial:
            self.out.append(self._partial)
        self._partial = ''

    def finish_clause_ranges(self):
        cs = sorted(self.clauses, key=lambda c: c.line0)
        for a, b in zip(cs, cs[1:]):
            if b.fn == a.fn and b.kind == a.kind and b.line0 - a.line0 < 60:
                a.line1 = max(a.line1, b.line0 - 1)
        # the last clause of a block extends over continuation lines until a line that starts
        # a new section / the body
        for c in cs:
            j = c.line1
            while j < len(self.out):
                nxt = self.out[j]  # 0-based index j == line j+1
                if any(o.line0 == j + 1 for o in cs): break
                if re.match(r'^\s*(requires|ensures|invariant|decreases|\{|$)', nxt) or nxt.strip().startswith(('pub fn', 'fn ', 'let ', 'if ', 'while', 'loop')):
                    break
                if not nxt.startswith('        ') and not nxt.startswith('   '): break
                j += 1
                if j - c.line1 > 40: break
            c.line1 = max(c.line1, j)


def build_unit(name, repo, verif, outdir, lenient=False, force_assume=(), drop_hints=()):
    _loop_id[0] = 0
    u = Unit(name, repo, verif)
    if lenient: u.lenient = True
    u.force_assume |= set(force_assume)
    u.drop_hints = set(tuple(x) for x in drop_hints)
    text = u.build(os.path.join(verif, 'units', name + '.vrs'))
    u.finish_clause_ranges()
    os.makedirs(outdir, exist_ok=True)
    path = os.path.join(outdir, name + ('_probe' if os.environ.get('VERIF_PROBE') else '') + '.rs')
    tmp = path + '.%d.tmp' % os.getpid()
    open(tmp, 'w').write(text)
    os.replace(tmp, path)            # atomic: a concurrent check never reads a half-written unit
    meta = dict(unit=name, path=path, clauses=[c.to_json() for c in u.clauses], functions=u.functions,
                rewrites={k: dict(v) for k, v in u.rewrites.items()}, lemmas=u.lemmas, sources=sorted(u.sources), assumed=u.assumed)
    mp = os.path.join(outdir, name + ('_probe' if os.environ.get('VERIF_PROBE') else '') + '.meta.json')
    json.dump(meta, open(mp + '.%d.tmp' % os.getpid(), 'w'), indent=1)
    os.replace(mp + '.%d.tmp' % os.getpid(), mp)
    return path, meta

if __name__ == '__main__':
    repo = os.environ.get('VERIF_REPO', '/repo')
    verif = os.path.dirname(os.path.dirname(os.path.abspath(__file__)))
    try:
        import hashlib
        bd = os.path.join(verif, 'build') if os.path.realpath(repo) == '/repo' else os.path.join(verif, 'build', 'alt-' + hashlib.sha256(os.path.realpath(repo).encode()).hexdigest()[:10])
        p, meta = build_unit(sys.argv[1], repo, verif, bd)
        print(p, len(meta['clauses']), 'clauses')
    except ExtractError as e:
        print('EXTRACT-ERROR', e); sys.exit(2)
