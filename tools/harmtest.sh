#!/bin/bash
# usage: tools/harmtest.sh <Hk>  -- apply each semantics-preserving refactoring of a sub-agent to a scratch export and run ALL checks:
# exit 0 expected; exit 2 (undecided) tolerated; exit 1 would be a false alarm.
H=$1; O=${SEEDROOT:-/tmp/seed2}/$H/_seed_out; [ -d $O ] || O=/verif/seeded/harmless/$H
for r in r1 r2 r3; do
  [ -f $O/$r.diff ] || continue
  M=/tmp/mrepo_${H}_$r; rm -rf $M; mkdir $M; (cd /repo && git archive HEAD | tar -x -C $M; cp /repo/Cargo.lock $M/ 2>/dev/null)
  (cd $M && patch -p1 -s < $O/$r.diff) || { echo "$H $r: patch failed"; continue; }
  echo "== $H $r: $(cd $M && diff -rq /repo/contracts $M/contracts | head -2; diff -rq /repo/packages $M/packages | head -2)"
  for i in ${PIDS:-01 02 03 04 05 06 07 08 09 10 11 12 13 14 15 16 17 18 19 20}; do
    out=$(VERIF_REPO=$M /verif/check C$i 2>&1); rc=$?
    echo "$H $r C$i rc=$rc $(echo "$out" | grep -E 'VIOLATION|UNDECIDED|failed obligation' | head -3 | tr '\n' ' ' | cut -c1-500)"
  done
  T=$(python3 -c "import hashlib,os;print(hashlib.sha256(os.path.realpath('$M').encode()).hexdigest()[:10])")
  rm -rf $M /verif/build/alt-$T /verif/build/target-$T /verif/build/replay_crate-$T /verif/build/bin/krp-replay-$T
done
