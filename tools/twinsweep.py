#!/usr/bin/env python3
"""tools/twinsweep.py [budget] [seeds...] -- run every bounded-exploration item of replay/drivers.json on the UNCHANGED tree with several seeds and a
large budget; any hit not covered by a known finding is a defect of the twin (a false alarm waiting to happen) or of /repo."""
import os, sys, json, subprocess, concurrent.futures as cf
V = os.path.dirname(os.path.dirname(os.path.abspath(__file__)))
sys.path.insert(0, os.path.join(V, 'tools'))
import replaylib
budget = int(sys.argv[1]) if len(sys.argv) > 1 else 200000
seeds = [int(x) for x in sys.argv[2:]] or [1, 2, 3, 4, 5, 6]
known = [json.loads(l) for l in open(os.path.join(V, 'KNOWN_FINDINGS.jsonl')) if l.strip() and not l.startswith('#')]
ks = set(k['strict_clause'] for k in known if k.get('kind') == 'finding')
items = {}
for pid, its in replaylib.drivers().get('_explore', {}).items():
    for it in its: items[(it['driver'], it['clause'])] = pid
replaylib.build()
def run(job):
    (drv, cl), sd = job
    r = replaylib.search(drv, sd, budget, cl)
    return drv, cl, sd, r
jobs = [(k, s) for k in items for s in seeds]
bad = 0
with cf.ThreadPoolExecutor(max_workers=14) as ex:
    for drv, cl, sd, r in ex.map(run, jobs):
        if r.get('error'): print('ERROR', drv, cl, sd, r['error'][-200:]); bad += 1
        elif r.get('found') and not (set(r.get('failed', [])) & ks):
            print('HIT', drv, cl, 'seed', sd, r.get('failed'), json.dumps(r.get('input'))[:400], flush=True); bad += 1
print('items', len(items), 'runs', len(jobs), 'unexpected hits', bad)
