#!/usr/bin/env python3
"""Runner: extract units from /repo, run Verus, map failed obligations to clauses and
properties, handle known findings / replay, write evidence.  See DESIGN.md sections 2, 7, 8, 9."""
import os, sys, json, re, time, hashlib, subprocess, shutil

VERIF = os.path.dirname(os.path.dirname(os.path.abspath(__file__)))
REPO = os.environ.get('VERIF_REPO', '/repo')
BUILD_ROOT = os.path.join(VERIF, 'build')
# generated units of a non-default tree go to their own directory, so concurrent checks of different trees never collide
BUILD = BUILD_ROOT if os.path.realpath(REPO) == '/repo' else os.path.join(BUILD_ROOT, 'alt-' + hashlib.sha256(os.path.realpath(REPO).encode()).hexdigest()[:10])
sys.path.insert(0, os.path.join(VERIF, 'tools'))
import extract

VERUS = shutil.which('verus') or '/opt/veriftools/verus/verus'
BASE_FLAGS = ['--output-json', '--time', '--triggers-mode', 'silent', '--multiple-errors', '40', '--error-format=json']

VERIF_MSGS = ('postcondition not satisfied', 'precondition not satisfied', 'assertion failed', 'invariant not satisfied', 'loop invariant not satisfied',
              'possible arithmetic underflow/overflow', 'possible division by zero', 'decreases not satisfied', 'termination', 'possible bit shift underflow/overflow',
              'assertion failure', 'failed this', 'unable to prove', 'could not prove', 'cannot prove', 'not satisfied', 'safety condition')
import threading
FAILKEYS = ('failed_clauses', 'failed_lemmas', 'body_fail', 'abort_fail', 'support_fail')
_extract_lock = threading.Lock()

class Undecided(Exception):
    pass

def verus_version():
    try:
        return json.load(open('/opt/veriftools/verus/version.json')).get('verus', {}).get('version', '?')
    except Exception:
        return 'verus'

def run_verus(path, rlimit=40, seed=None, extra=()):
    cmd = [VERUS, os.path.basename(path)] + BASE_FLAGS + ['--rlimit', str(rlimit)] + list(extra)
    if seed is not None:
        cmd += ['--smt-option', 'smt.random_seed=%d' % seed]
    t0 = time.time()
    p = subprocess.run(cmd, cwd=os.path.dirname(path), capture_output=True, text=True)
    wall = time.time() - t0
    out = None
    try:
        out = json.loads(p.stdout)
    except Exception:
        pass
    diags = []
    for l in p.stderr.split('\n'):
        l = l.strip()
        if l.startswith('{'):
            try: diags.append(json.loads(l))
            except Exception: pass
    return dict(cmd=' '.join(cmd), rc=p.returncode, out=out, diags=diags, wall=wall, stderr=p.stderr[-4000:])

def classify(meta, res, unit_file):
    """-> dict(failed_clauses=set, failed_lemmas=set, body_fail={fn:[msg]}, infra=[msg], rlimit=[fn])"""
    text_lines = open(unit_file).read().split('\n')
    clauses = meta['clauses']
    fns = [f for f in meta['functions'] if f.get('kind') == 'fn']
    # proof fn ranges
    lemma_ranges = []
    for i, l in enumerate(text_lines):
        m = re.search(r'\bproof\s+fn\s+(\w+)', l)
        if m: lemma_ranges.append([m.group(1), i + 1, None])
    for a, b in zip(lemma_ranges, lemma_ranges[1:]): a[2] = b[1] - 1
    if lemma_ranges: lemma_ranges[-1][2] = len(text_lines)
    # contract header ranges for exec fns: from the `fn` line to out_line0
    r = dict(failed_clauses={}, failed_lemmas={}, body_fail={}, abort_fail={}, support_fail={}, infra=[], rlimit=[], compile_errors=[])
    base = os.path.basename(unit_file)
    def category(msg, lines, f, foreign_pre=False):
        """what kind of obligation inside an extracted function body failed (DESIGN 7a):
        support  -- an assertion / lemma precondition inside a proof block the template inserted (proof guidance, not specification)
        abort    -- the panic condition of a library operation (checked arithmetic of the shim, native overflow, division by zero)
        semantic -- a loop invariant, the precondition of a contracted repository function, an untagged contract line"""
        prim = [a for (a, b, lab, p) in lines if p] or [a for (a, b, lab, p) in lines]
        if any(h0 <= a <= h1 for a in prim for (h0, h1) in f.get('hint_lines', [])): return 'support'
        if any(k in msg for k in ('possible arithmetic underflow/overflow', 'possible division by zero', 'possible bit shift underflow/overflow')): return 'abort'
        if 'precondition not satisfied' in msg:
            pre = [a for (a, b, lab, p) in lines if 'failed precondition' in lab]
            if foreign_pre: return 'abort'      # precondition of an operator specified in vstd (std_specs/ops.rs: the *_req of the shim's operator impls)
            for a in pre:
                if any(g['sig_line0'] <= a <= g['out_line0'] for g in fns): return 'semantic'
                if any(a0 <= a <= a1 for (nm, a0, a1) in lemma_ranges): return 'support'
            return 'abort' if pre else 'semantic'
        return 'semantic'
    for d in res['diags']:
        if d.get('level') != 'error': continue
        msg = d.get('message', '')
        if msg.startswith('aborting due to'): continue
        spans = [s for s in d.get('spans', []) if s.get('file_name', '').endswith(base)]
        lines = [(s['line_start'], s['line_end'], s.get('label') or '', s.get('is_primary')) for s in spans]
        foreign_pre = any('failed precondition' in (s.get('label') or '') for s in d.get('spans', []) if not s.get('file_name', '').endswith(base))
        if 'rlimit' in msg.lower() or 'resource limit' in msg.lower() or 'timed out' in msg.lower():
            r['rlimit'].append((msg, lines)); continue
        is_verif = d.get('code') is None and any(k in msg for k in VERIF_MSGS)
        if not is_verif:
            # rustc / Verus front-end rejection (type error, unsupported construct, lost name...): never a violation
            r['compile_errors'].append((msg + ' ' + '; '.join('%d: %s' % (a, text_lines[a - 1].strip()[:120]) for (a, b, l, p) in lines[:2]))[:600])
            continue
        hit = False
        # 1. clause spans
        for c in clauses:
            for (a, b, lab, prim) in lines:
                if c['lines'][0] <= a <= c['lines'][1]:
                    r['failed_clauses'].setdefault(c['name'], []).append(msg); hit = True
        if hit: continue
        # 2. inside an extracted fn (body or untagged contract line)
        # the primary span (the failing call / assertion / invariant) decides which function owns the failure
        for only_primary in (True, False):
            for f in fns:
                hi = f['out_line1']
                for (a, b, lab, prim) in lines:
                    if only_primary and not prim: continue
                    if f.get('sig_line0', f['out_line0']) <= a <= hi:
                        key = {'semantic': 'body_fail', 'abort': 'abort_fail', 'support': 'support_fail'}[category(msg, lines, f, foreign_pre)]
                        r[key].setdefault(f['name'], []).append('%s @%d: %s' % (msg, a, text_lines[a - 1].strip()[:160])); hit = True; break
                if hit: break
            if hit: break
        if hit: continue
        for (nm, a0, a1) in lemma_ranges:
            for (a, b, lab, prim) in lines:
                if a0 <= a <= a1:
                    r['failed_lemmas'].setdefault(nm, []).append('%s @%d' % (msg, a)); hit = True; break
            if hit: break
        if hit: continue
        if not spans and ('postcondition' in msg or 'precondition' in msg or 'assertion' in msg):
            r['infra'].append(msg)
        elif d.get('code') or 'error' in d.get('level', ''):
            r['compile_errors'].append((msg + ' ' + '; '.join('%d: %s' % (a, text_lines[a - 1].strip()[:120]) for (a, b, l, p) in lines[:2]))[:600])
    return r

def unit_result(unit, tier='quick', seed=0, probe=False, known_strict=()):
    """build + verify one unit (cached on the generated text)"""
    force = set(); drop = set()
    for _round in range(6):
        with _extract_lock:     # the extractor keeps per-function counters in module state
            try:
                path, meta = extract.build_unit(unit, REPO, VERIF, BUILD, force_assume=force, drop_hints=drop)
            except extract.ExtractError as e0:
                # a proof hint lost its anchor: verify the function without it (its failures then need a concrete input to count);
                # a function can no longer be brought under its contract: verify the rest, that function becomes undecided
                path, meta = extract.build_unit(unit, REPO, VERIF, BUILD, lenient=True, force_assume=force, drop_hints=drop)
                meta['lenient_reason'] = str(e0)
            text = open(path).read()
        key = hashlib.sha256((text + verus_version() + ' '.join(BASE_FLAGS) + 'v3' + json.dumps([f.get('hint_lines') for f in meta['functions']])).encode()).hexdigest()[:24]
        cdir = os.path.join(BUILD_ROOT, 'cache'); os.makedirs(cdir, exist_ok=True)
        cpath = os.path.join(cdir, '%s-%s.json' % (unit, key))
        if os.path.exists(cpath) and not os.environ.get('VERIF_NOCACHE'):
            c = json.load(open(cpath)); c['cached'] = True; c['meta'] = meta
            return c
        res = run_verus(path)
        cl = classify(meta, res, path)
        if not cl['compile_errors']: break
        # front-end rejection: if every error lies inside extracted function bodies, assume those functions and try again
        bad_fns = set(); bad_hints = set()
        for d in res['diags']:
            if d.get('level') != 'error' or d.get('message', '').startswith('aborting'): continue
            msg0 = d.get('message', '')
            if (d.get('code') is None and any(k in msg0 for k in VERIF_MSGS)) or 'rlimit' in msg0.lower(): continue
            sp = [x for x in d.get('spans', []) if x.get('file_name', '').endswith(os.path.basename(path))]
            hit = None; hint = None
            for f in meta['functions']:
                if f.get('kind') == 'fn' and not f.get('assumed') and any(f['sig_line0'] <= x['line_start'] <= f['out_line1'] for x in sp):
                    hit = f['name']
                    for (h0, h1), hid in zip(f.get('hint_lines', []), f.get('hint_ids', [])):
                        if hid >= 0 and any(h0 <= x['line_start'] <= h1 for x in sp if x.get('is_primary')): hint = (f['name'], hid)
            if hint: bad_hints.add(hint)
            elif hit: bad_fns.add(hit)
            elif sp or d.get('code'): bad_fns.add(None)
        if None in bad_fns: break
        if bad_hints - drop:
            drop |= bad_hints; continue       # first try again without the proof hints the front end rejects (e.g. a local they mention is gone)
        if not bad_fns or bad_fns <= force: break
        force |= bad_fns
    attempts = [dict(rlimit=40, seed=None, wall=res['wall'])]
    # retry rule (DESIGN 7): a proof under any seed is a proof.  Only re-run when something failed
    # that is not a compile error.
    def bad(c): return c['failed_clauses'] or c['failed_lemmas'] or c['body_fail'] or c['abort_fail'] or c['support_fail'] or c['rlimit'] or c['infra']
    unstable = []
    only_known = (not cl['failed_lemmas'] and not cl['body_fail'] and not cl['abort_fail'] and not cl['support_fail'] and not cl['rlimit'] and not cl['infra']
                  and cl['failed_clauses'] and all(k in known_strict for k in cl['failed_clauses']))
    if bad(cl) and not cl['compile_errors'] and not only_known:
        # functions to re-check: those owning a failed clause / body obligation, and failed lemmas
        fns = set(cl['body_fail'].keys()) | set(cl['failed_lemmas'].keys()) | set(cl['abort_fail'].keys()) | set(cl['support_fail'].keys())
        for c in meta['clauses']:
            if c['name'] in cl['failed_clauses']: fns.add(c['fn'])
        targeted = bool(fns) and not cl['rlimit'] and not cl['infra']
        for (rl, sd) in ((160, None), (160, 7 + seed)):
            runs = []
            if targeted:
                for fn in sorted(fns):
                    r2 = run_verus(path, rlimit=rl, seed=sd, extra=['--verify-root', '--verify-function', fn])
                    if r2['out'] is None or any('could not find function' in d.get('message', '') or 'more than one match' in d.get('message', '') for d in r2['diags']):
                        runs = None; break
                    runs.append(r2)
            if not runs:
                runs = [run_verus(path, rlimit=rl, seed=sd)]
            cl2 = dict(failed_clauses={}, failed_lemmas={}, body_fail={}, abort_fail={}, support_fail={}, infra=[], rlimit=[], compile_errors=[])
            for r2 in runs:
                c2 = classify(meta, r2, path)
                for k in FAILKEYS: cl2[k].update(c2[k])
                for k in ('infra', 'rlimit', 'compile_errors'): cl2[k] += c2[k]
                attempts.append(dict(rlimit=rl, seed=sd, wall=r2['wall'], targeted=targeted))
            # an obligation discharged in any run counts as discharged
            for k in FAILKEYS:
                for nm in list(cl[k]):
                    if nm not in cl2[k] and not cl2['compile_errors'] and not any(nm in str(x) for x in cl2['rlimit']):
                        unstable.append(nm); del cl[k][nm]
            if not cl2['rlimit']: cl['rlimit'] = []
            cl['infra'] = cl2['infra']
            if not bad(cl): break
    out = res['out'] or {}
    vr = out.get('verification-results', {})
    fn_times = {}
    try:
        for m in out['times-ms']['smt']['smt-run-module-times']:
            for fb in m.get('function-breakdown', []):
                fn_times[fb['function'].split('::', 1)[-1]] = fb['time']
    except Exception:
        pass
    c = dict(unit=unit, key=key, verus_cmd=res['cmd'], verified=vr.get('verified'), errors=vr.get('errors'),
             encountered_vir_error=vr.get('encountered-vir-error'), wall=sum(a['wall'] for a in attempts), attempts=attempts,
             failed_clauses=cl['failed_clauses'], failed_lemmas=cl['failed_lemmas'], body_fail=cl['body_fail'], abort_fail=cl['abort_fail'], support_fail=cl['support_fail'],
             infra=cl['infra'], rlimit=[str(x)[:300] for x in cl['rlimit']], compile_errors=cl['compile_errors'],
             unstable=sorted(set(unstable)), fn_times=fn_times, no_json=(res['out'] is None),
             stderr_tail=res['stderr'][-1500:] if res['out'] is None or cl['compile_errors'] else '')
    if not c['compile_errors'] and not c['no_json']:
        json.dump(c, open(cpath, 'w'))
    c['cached'] = False; c['meta'] = meta
    return c

def scan_assumptions(path):
    text = open(path).read()
    res = {}
    for kw in ('external_body', 'assume_specification', 'assume(', 'admit(', 'axiom', 'external_fn_specification', 'external]'):
        n = text.count(kw)
        if n: res[kw] = n
    names = re.findall(r'#\[verifier::external_body\]\s*(?:pub\s+)?(?:open\s+|closed\s+)?(?:spec\s+|proof\s+|exec\s+)?fn\s+(\w+)', text)
    return res, sorted(set(names))
